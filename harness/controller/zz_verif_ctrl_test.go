//go:build verif

package main

// Harness for C01/C02 (status level), C03, C06, C07: histories driven through the
// real controllers.ServiceReconciler (gate, reprocessAll, retry), the real
// controller.SetBalancer / SetPools and a fake API server (controller-runtime
// fake client).  Every event with its observations is shipped to Coq
// (Model/Ctrl.v); the properties are evaluated directly at every quiescent point.

import (
	"context"
	"errors"
	"fmt"
	"math/big"
	"math/rand"
	"net"
	"sort"
	"strings"
	"testing"

	"github.com/go-kit/log"
	v1 "k8s.io/api/core/v1"
	discovery "k8s.io/api/discovery/v1"
	metav1 "k8s.io/apimachinery/pkg/apis/meta/v1"
	"k8s.io/apimachinery/pkg/labels"
	"k8s.io/apimachinery/pkg/runtime"
	"k8s.io/apimachinery/pkg/types"
	"k8s.io/apimachinery/pkg/util/sets"
	ctrl "sigs.k8s.io/controller-runtime"
	"sigs.k8s.io/controller-runtime/pkg/client"
	"sigs.k8s.io/controller-runtime/pkg/client/fake"
	"sigs.k8s.io/controller-runtime/pkg/client/interceptor"
	"sigs.k8s.io/controller-runtime/pkg/event"

	"go.universe.tf/metallb/internal/allocator"
	"go.universe.tf/metallb/internal/allocator/k8salloc"
	"go.universe.tf/metallb/internal/config"
	"go.universe.tf/metallb/internal/k8s/controllers"
)

// ---------- pools (same generator family as the allocator harness) ----------

type gPin struct {
	Prio int                 `json:"prio"`
	Nss  []string            `json:"nss"`
	Sels []map[string]string `json:"sels"`
}
type gPool struct {
	Name  string   `json:"name"`
	CIDRs []string `json:"cidrs"`
	Avoid bool     `json:"avoid"`
	Auto  bool     `json:"auto"`
	Pin   *gPin    `json:"pin"`
}

var gCidrLib4 = []string{"10.0.0.0/30", "10.0.0.4/31", "10.0.0.254/31", "10.0.1.0/31", "10.0.2.255/32", "10.0.3.0/32", "10.0.5.6/32", "10.0.4.8/30"}
var gCidrLib6 = []string{"fc00::/127", "fc00::4/127", "fc00:1::/128", "fc00:2::ff/128"}
var gPoolNames = []string{"pa", "pb", "pc", "pd"}
var gNss = []string{"ns1", "ns2"}
var gSvcNames = []string{"ns1/a", "ns1/b", "ns2/c", "ns2/d", "ns1/e"}
var gSelLib = []map[string]string{{"app": "a"}, {"app": "b"}, {"tier": "x"}}
var gLabelLib = []map[string]string{nil, {"app": "a"}, {"app": "b"}, {"app": "a", "tier": "x"}}

func gGenPools(r *rand.Rand) []gPool {
	n := 1 + r.Intn(3)
	var lib []string
	lib = append(lib, gCidrLib4...)
	lib = append(lib, gCidrLib6...)
	r.Shuffle(len(lib), func(i, j int) { lib[i], lib[j] = lib[j], lib[i] })
	names := append([]string{}, gPoolNames...)
	r.Shuffle(len(names), func(i, j int) { names[i], names[j] = names[j], names[i] })
	var out []gPool
	k := 0
	for i := 0; i < n && k < len(lib); i++ {
		p := gPool{Name: names[i], Avoid: r.Intn(4) == 0, Auto: r.Intn(6) != 0}
		nc := 1 + r.Intn(3)
		for c := 0; c < nc && k < len(lib); c++ {
			p.CIDRs = append(p.CIDRs, lib[k])
			k++
		}
		if r.Intn(3) == 0 {
			pin := &gPin{Prio: r.Intn(3)}
			switch r.Intn(3) {
			case 0:
				pin.Nss = []string{gNss[r.Intn(2)]}
			case 1:
				pin.Nss = []string{"ns1", "ns2"}
			}
			ns := r.Intn(2)
			if len(pin.Nss) == 0 && ns == 0 {
				ns = 1
			}
			for s := 0; s < ns; s++ {
				pin.Sels = append(pin.Sels, gSelLib[r.Intn(len(gSelLib))])
			}
			p.Pin = pin
		}
		out = append(out, p)
	}
	sort.Slice(out, func(i, j int) bool { return out[i].Name < out[j].Name })
	return out
}

func gBuildPools(ps []gPool) *config.Pools {
	res := &config.Pools{ByName: map[string]*config.Pool{}}
	for _, g := range ps {
		p := &config.Pool{Name: g.Name, AvoidBuggyIPs: g.Avoid, AutoAssign: g.Auto}
		for _, c := range g.CIDRs {
			_, n, err := net.ParseCIDR(c)
			if err != nil {
				panic(err)
			}
			p.CIDR = append(p.CIDR, n)
		}
		if g.Pin != nil {
			sa := &config.ServiceAllocation{Priority: g.Pin.Prio, Namespaces: sets.New(g.Pin.Nss...)}
			for _, s := range g.Pin.Sels {
				sa.ServiceSelectors = append(sa.ServiceSelectors, labels.SelectorFromSet(labels.Set(s)))
			}
			p.ServiceAllocations = sa
			for _, ns := range g.Pin.Nss {
				if res.ByNamespace == nil {
					res.ByNamespace = map[string][]string{}
				}
				res.ByNamespace[ns] = append(res.ByNamespace[ns], g.Name)
			}
			if len(g.Pin.Sels) > 0 {
				res.ByServiceSelector = append(res.ByServiceSelector, g.Name)
			}
		}
		res.ByName[g.Name] = p
	}
	for _, l := range res.ByNamespace {
		sort.Strings(l)
	}
	sort.Strings(res.ByServiceSelector)
	return res
}

func gNorm(ip net.IP) []byte {
	if v4 := ip.To4(); v4 != nil {
		return v4
	}
	return ip.To16()
}
func gFromBig(n *big.Int, v4 bool) net.IP {
	l := 16
	if v4 {
		l = 4
	}
	b := n.Bytes()
	out := make([]byte, l)
	copy(out[l-len(b):], b)
	return net.IP(out)
}
func gPoolAddrs(p gPool, v4 bool, all bool) []net.IP {
	var out []net.IP
	for _, c := range p.CIDRs {
		ip, n, _ := net.ParseCIDR(c)
		ones, bits := n.Mask.Size()
		if (bits == 32) != v4 {
			continue
		}
		cur := new(big.Int).SetBytes(gNorm(ip.Mask(n.Mask)))
		for i := 0; i < 1<<(bits-ones); i++ {
			x := gFromBig(cur, v4)
			if all || !(p.Avoid && oBuggy(x)) {
				out = append(out, x)
			}
			cur.Add(cur, big.NewInt(1))
		}
	}
	return out
}
func gAddrUniverse(ps []gPool) []string {
	var out []string
	for _, p := range ps {
		for _, x := range gPoolAddrs(p, true, true) {
			out = append(out, x.String())
		}
		for _, x := range gPoolAddrs(p, false, true) {
			out = append(out, x.String())
		}
	}
	out = append(out, "10.99.0.1", "fc99::1")
	return out
}

// ---------- Coq terms ----------

func gNum(m map[string]int, k string) int {
	if k == "" {
		return 0
	}
	if v, ok := m[k]; ok {
		return v
	}
	m[k] = len(m) + 1
	return m[k]
}

var gNsvc, gNpool, gNns, gNlab, gNproto, gNstr = map[string]int{}, map[string]int{}, map[string]int{}, map[string]int{}, map[string]int{}, map[string]int{}

func init() {
	for _, n := range gPoolNames {
		gNum(gNpool, n)
	}
	gNum(gNpool, "bogus")
	for _, n := range gSvcNames {
		gNum(gNsvc, n)
	}
}

func cIP(ip net.IP) string {
	if v4 := ip.To4(); v4 != nil {
		return cCtor("V4", cBigN(new(big.Int).SetBytes(v4)))
	}
	return cCtor("V6", cBigN(new(big.Int).SetBytes(ip.To16())))
}
func cIPs(ips []net.IP) string {
	var l []string
	for _, ip := range ips {
		l = append(l, cIP(ip))
	}
	return cList(l)
}
func cPrefix(c string) string {
	ip, n, _ := net.ParseCIDR(c)
	ones, _ := n.Mask.Size()
	fam := "F6"
	b := gNorm(ip)
	if len(b) == 4 {
		fam = "F4"
	}
	return cCtor("Build_prefix", fam, cBigN(new(big.Int).SetBytes(b)), cNi(ones))
}
func cLabels(m map[string]string) string {
	var ks []string
	for k := range m {
		ks = append(ks, k)
	}
	sort.Strings(ks)
	var l []string
	for _, k := range ks {
		l = append(l, cPair(cNi(gNum(gNlab, "k:"+k)), cNi(gNum(gNlab, "v:"+m[k]))))
	}
	return cList(l)
}
func cPools(ps []gPool) string {
	var l []string
	byNs := map[string][]string{}
	var bySel []string
	for _, p := range ps {
		var cs []string
		for _, c := range p.CIDRs {
			cs = append(cs, cPrefix(c))
		}
		pin := cNone
		if p.Pin != nil {
			var nss, sels []string
			for _, n := range p.Pin.Nss {
				nss = append(nss, cNi(gNum(gNns, n)))
				byNs[n] = append(byNs[n], p.Name)
			}
			for _, s := range p.Pin.Sels {
				sels = append(sels, cLabels(s))
			}
			if len(p.Pin.Sels) > 0 {
				bySel = append(bySel, p.Name)
			}
			pin = cSome(cCtor("Build_pin", cNi(p.Pin.Prio), cList(nss), cList(sels)))
		}
		l = append(l, cCtor("Build_pool", cNi(gNum(gNpool, p.Name)), cList(cs), cBool(p.Avoid), cBool(p.Auto), pin))
	}
	var nsl, nsk []string
	for k := range byNs {
		nsk = append(nsk, k)
	}
	sort.Strings(nsk)
	for _, k := range nsk {
		var ids []string
		for _, n := range byNs[k] {
			ids = append(ids, cNi(gNum(gNpool, n)))
		}
		nsl = append(nsl, cPair(cNi(gNum(gNns, k)), cList(ids)))
	}
	var sl []string
	for _, n := range bySel {
		sl = append(sl, cNi(gNum(gNpool, n)))
	}
	return cCtor("Build_pools", cList(l), cList(nsl), cList(sl))
}

// ---------- service specs ----------

type gSpec struct {
	LB        bool              `json:"lb"`
	Labels    map[string]string `json:"labels"`
	Fam       string            `json:"fam"` // ipv4 ipv6 dual
	ClusterOK bool              `json:"cluster_ok"`
	Pol       string            `json:"pol"` // "" single prefer require
	First6    bool              `json:"first6"`
	Ports     []int             `json:"ports"` // indexes into gPortLib
	Sharing   string            `json:"sharing"`
	DeprShare bool              `json:"depr_share"`
	Local     bool              `json:"local"`
	Selector  map[string]string `json:"selector"`
	WantIPs   []string          `json:"want_ips"`
	WantKind  string            `json:"want_kind"` // "" spec annot annot-depr invalid both
	WantPool  string            `json:"want_pool"`
	DeprPool  bool              `json:"depr_pool"`
	Decoy     bool              `json:"decoy"` // the deprecated spelling of an annotation is ALSO present, with another value: the stable one wins
}

// the same port number also occurs on a second protocol (ports are (protocol, port) pairs)
var gPortLib = []v1.ServicePort{{Protocol: v1.ProtocolTCP, Port: 80}, {Protocol: v1.ProtocolTCP, Port: 443}, {Protocol: v1.ProtocolUDP, Port: 53},
	{Protocol: v1.ProtocolTCP, Port: 53}, {Protocol: v1.ProtocolUDP, Port: 80}}

// loadBalancerClass the reconciler is started with in this history ("" = default); every generated Service carries it
var gLBClass string

func gGenSpec(r *rand.Rand, pools []gPool, held []string) gSpec {
	sp := gSpec{LB: r.Intn(10) != 0, Labels: gLabelLib[r.Intn(len(gLabelLib))], ClusterOK: r.Intn(20) != 0}
	switch r.Intn(7) {
	case 0, 1, 2:
		sp.Fam, sp.Pol = "ipv4", []string{"", "single"}[r.Intn(2)]
	case 3:
		sp.Fam, sp.Pol = "ipv6", "single"
	case 4, 5:
		sp.Fam, sp.Pol = "dual", "prefer"
	default:
		sp.Fam, sp.Pol = "dual", "require"
	}
	if r.Intn(10) == 0 && sp.Fam != "dual" {
		sp.Pol = []string{"prefer", "require"}[r.Intn(2)]
	}
	sp.First6 = sp.Fam == "ipv6" || (sp.Fam == "dual" && r.Intn(3) == 0)
	np := 1 + r.Intn(5)/2 // 1, 2 or 3 ports
	perm := r.Perm(len(gPortLib))
	sp.Ports = append(sp.Ports, perm[:np]...)
	sort.Ints(sp.Ports)
	sp.Sharing = []string{"", "k1", "k1", "k1", "k2"}[r.Intn(5)]
	sp.DeprShare = r.Intn(4) == 0
	sp.Decoy = r.Intn(4) == 0
	sp.Local = r.Intn(3) == 0
	// several labels too: the backend key of a Local service is a rendering of the whole selector
	sp.Selector = []map[string]string{nil, nil, {"app": "a"}, {"app": "a"}, {"app": "b"}, {"app": "a", "tier": "x", "zone": "z1", "rel": "s"}, {"app": "a", "tier": "x", "zone": "z1", "rel": "s"}}[r.Intn(7)]
	univ := gAddrUniverse(pools)
	if len(held) > 0 && r.Intn(2) == 0 { // aim explicit requests at addresses somebody holds
		univ = held
	}
	switch x := r.Intn(12); {
	case x < 6:
	case x < 8:
		sp.WantKind, sp.WantIPs = "spec", []string{univ[r.Intn(len(univ))]}
	case x < 10:
		sp.WantKind = []string{"annot", "annot-depr"}[r.Intn(2)]
		sp.WantIPs = []string{univ[r.Intn(len(univ))]}
		if sp.Fam == "dual" || r.Intn(5) == 0 {
			sp.WantIPs = append(sp.WantIPs, univ[r.Intn(len(univ))])
		}
	case x < 11:
		sp.WantKind, sp.WantIPs = "invalid", []string{"not-an-ip"}
	default:
		sp.WantKind, sp.WantIPs = "both", []string{univ[r.Intn(len(univ))]}
	}
	if r.Intn(5) == 0 {
		sp.WantPool = "bogus"
		if len(pools) > 0 && r.Intn(4) != 0 {
			sp.WantPool = pools[r.Intn(len(pools))].Name
		}
		sp.DeprPool = r.Intn(3) == 0
	}
	return sp
}

func gApplySpec(name string, sp gSpec, old *v1.Service) *v1.Service {
	s := &v1.Service{ObjectMeta: metav1.ObjectMeta{Namespace: name[:3], Name: name[4:], Labels: sp.Labels}}
	if old != nil {
		s.ResourceVersion = old.ResourceVersion
		s.Status = *old.Status.DeepCopy()
		s.Finalizers = append([]string{}, old.Finalizers...) // a terminating Service stays terminating
		s.DeletionTimestamp = old.DeletionTimestamp
		if v, ok := old.Annotations[AnnotationIPAllocateFromPool]; ok {
			s.Annotations = map[string]string{AnnotationIPAllocateFromPool: v}
		}
	}
	ann := func(k, v string) {
		if s.Annotations == nil {
			s.Annotations = map[string]string{}
		}
		s.Annotations[k] = v
	}
	s.Spec.Type = v1.ServiceTypeClusterIP
	if sp.LB {
		s.Spec.Type = v1.ServiceTypeLoadBalancer
	}
	if sp.ClusterOK {
		switch sp.Fam {
		case "ipv4":
			s.Spec.ClusterIPs = []string{"10.96.0.7"}
		case "ipv6":
			s.Spec.ClusterIPs = []string{"fd00:96::7"}
		default:
			s.Spec.ClusterIPs = []string{"10.96.0.7", "fd00:96::7"}
			if sp.First6 {
				s.Spec.ClusterIPs = []string{"fd00:96::7", "10.96.0.7"}
			}
		}
		s.Spec.ClusterIP = s.Spec.ClusterIPs[0]
	}
	switch sp.Pol {
	case "single":
		p := v1.IPFamilyPolicySingleStack
		s.Spec.IPFamilyPolicy = &p
	case "prefer":
		p := v1.IPFamilyPolicyPreferDualStack
		s.Spec.IPFamilyPolicy = &p
	case "require":
		p := v1.IPFamilyPolicyRequireDualStack
		s.Spec.IPFamilyPolicy = &p
	}
	if sp.First6 {
		s.Spec.IPFamilies = []v1.IPFamily{v1.IPv6Protocol, v1.IPv4Protocol}
	} else {
		s.Spec.IPFamilies = []v1.IPFamily{v1.IPv4Protocol, v1.IPv6Protocol}
	}
	for _, i := range sp.Ports {
		s.Spec.Ports = append(s.Spec.Ports, gPortLib[i])
	}
	if gLBClass != "" {
		c := gLBClass
		s.Spec.LoadBalancerClass = &c
	}
	if sp.Sharing != "" {
		if sp.DeprShare {
			ann(DeprecatedAnnotationAllowSharedIP, sp.Sharing)
		} else {
			ann(AnnotationAllowSharedIP, sp.Sharing)
			if sp.Decoy {
				ann(DeprecatedAnnotationAllowSharedIP, map[bool]string{true: "k2", false: "k1"}[sp.Sharing == "k1"]) // the other key in use
			}
		}
	}
	s.Spec.ExternalTrafficPolicy = v1.ServiceExternalTrafficPolicyTypeCluster
	if sp.Local {
		s.Spec.ExternalTrafficPolicy = v1.ServiceExternalTrafficPolicyTypeLocal
	}
	s.Spec.Selector = sp.Selector
	switch sp.WantKind {
	case "spec":
		s.Spec.LoadBalancerIP = sp.WantIPs[0]
	case "annot":
		ann(AnnotationLoadBalancerIPs, strings.Join(sp.WantIPs, ", "))
	case "annot-depr":
		ann(DeprecatedAnnotationLoadBalancerIPs, strings.Join(sp.WantIPs, ","))
	case "invalid":
		s.Spec.LoadBalancerIP = sp.WantIPs[0]
	case "both":
		s.Spec.LoadBalancerIP = sp.WantIPs[0]
		ann(AnnotationLoadBalancerIPs, sp.WantIPs[0])
	}
	if sp.WantPool != "" {
		if sp.DeprPool {
			ann(DeprecatedAnnotationAddressPool, sp.WantPool)
		} else {
			ann(AnnotationAddressPool, sp.WantPool)
			if sp.Decoy {
				ann(DeprecatedAnnotationAddressPool, "legacy-pool")
			}
		}
	}
	if sp.Decoy && sp.WantKind == "annot" {
		ann(DeprecatedAnnotationLoadBalancerIPs, "192.0.2.99")
	}
	return s
}

func gParsedWant(sp gSpec) (ips []net.IP, invalid bool) {
	switch sp.WantKind {
	case "":
		return nil, false
	case "invalid", "both":
		return nil, true
	}
	for _, s := range sp.WantIPs {
		ips = append(ips, net.ParseIP(s))
	}
	if len(ips) == 2 && (ips[0].To4() == nil) == (ips[1].To4() == nil) {
		return nil, true
	}
	if len(ips) > 2 {
		return nil, true
	}
	return ips, false
}

// the model's view of a Service (what SetBalancer reads), built from the object the harness stored
func cSvcObj(svc *v1.Service, sp gSpec) string {
	fam := map[string]string{"ipv4": "S4", "ipv6": "S6", "dual": "SDual"}[sp.Fam]
	pol := map[string]string{"": "Single", "single": "Single", "prefer": "Prefer", "require": "Require"}[sp.Pol]
	var ports []string
	for _, i := range sp.Ports {
		ports = append(ports, cCtor("Build_port", cNi(gNum(gNproto, string(gPortLib[i].Protocol))), cNi(int(gPortLib[i].Port))))
	}
	sk, bk := 0, 0
	if v := SharingKey(svc); v != "" {
		sk = gNum(gNstr, "s:"+v)
	}
	if v := k8salloc.BackendKey(svc); v != "" {
		bk = gNum(gNstr, "b:"+v)
	}
	key := cCtor("Build_skey", cNi(sk), cNi(bk))
	req := cCtor("Build_req", cNi(gNum(gNns, svc.Namespace)), cLabels(sp.Labels), fam, pol, cBool(sp.First6), cList(ports), key)
	want := "WNone"
	if ips, inv := gParsedWant(sp); inv {
		want = "WInvalid"
	} else if len(ips) > 0 {
		want = cCtor("WIps", cIPs(ips))
	}
	wp := cNone
	if sp.WantPool != "" {
		wp = cSome(cNi(gNum(gNpool, sp.WantPool)))
	}
	return cCtor("Build_svcobj", cBool(sp.LB), req, cBool(sp.ClusterOK), want, wp, "[]", cNone)
}

func gIPStrs(ips []net.IP) []string {
	var out []string
	for _, x := range ips {
		out = append(out, x.String())
	}
	return out
}

func gStatusIPs(s *v1.Service) []net.IP {
	var out []net.IP
	for _, in := range s.Status.LoadBalancer.Ingress {
		if in.IP != "" {
			out = append(out, net.ParseIP(in.IP))
		}
	}
	return out
}

// ---------- the fake cluster ----------

type hWorld struct {
	t        *testing.T
	r        *rand.Rand
	cl       client.Client
	c        *controller
	rec      *controllers.ServiceReconciler
	reloadCh chan event.GenericEvent
	queue    map[string]bool
	reload   bool
	pools    []gPool
	specs    map[string]gSpec
	failNext bool // next UpdateStatus fails
	writes   int
	syncs    []controllers.SyncState
	order    []string
	shuffle  bool
}

func (w *hWorld) UpdateStatus(svc *v1.Service) error {
	w.writes++
	if w.failNext {
		w.failNext = false
		return errors.New("injected status write failure")
	}
	var cur v1.Service
	if err := w.cl.Get(context.TODO(), types.NamespacedName{Namespace: svc.Namespace, Name: svc.Name}, &cur); err != nil {
		return err
	}
	if v, ok := svc.Annotations[AnnotationIPAllocateFromPool]; ok {
		if cur.Annotations == nil {
			cur.Annotations = map[string]string{}
		}
		cur.Annotations[AnnotationIPAllocateFromPool] = v
	} else {
		delete(cur.Annotations, AnnotationIPAllocateFromPool)
		if len(cur.Annotations) == 0 {
			cur.Annotations = nil
		}
	}
	if err := w.cl.Update(context.TODO(), &cur); err != nil {
		return err
	}
	cur.Status = *svc.Status.DeepCopy()
	return w.cl.Status().Update(context.TODO(), &cur)
}
func (w *hWorld) Infof(*v1.Service, string, string, ...interface{})  {}
func (w *hWorld) Errorf(*v1.Service, string, string, ...interface{}) {}

func (w *hWorld) newController() {
	w.c = &controller{ips: allocator.New(func(string) {})}
	w.c.client = w
	w.reloadCh = make(chan event.GenericEvent, 1024)
	w.rec = &controllers.ServiceReconciler{
		Client: w.cl,
		Logger: log.NewNopLogger(),
		Handler: func(l log.Logger, name string, svc *v1.Service, eps []discovery.EndpointSlice) controllers.SyncState {
			res := w.c.SetBalancer(l, name, svc, eps)
			w.syncs = append(w.syncs, res)
			w.order = append(w.order, name)
			return res
		},
		Reload:            w.reloadCh,
		LoadBalancerClass: gLBClass,
	}
}

func (w *hWorld) drainReloadChan() {
	for {
		select {
		case <-w.reloadCh:
			w.reload = true
		default:
			return
		}
	}
}

func (w *hWorld) get(name string) *v1.Service {
	var s v1.Service
	if err := w.cl.Get(context.TODO(), types.NamespacedName{Namespace: name[:3], Name: name[4:]}, &s); err != nil {
		return nil
	}
	return &s
}

func (w *hWorld) existing() []string {
	var out []string
	for _, n := range gSvcNames {
		if w.get(n) != nil {
			out = append(out, n)
		}
	}
	return out
}

// ---------- oracle helpers (from the statements) ----------

func oBuggy(ip net.IP) bool {
	v4 := ip.To4()
	return v4 != nil && (v4[3] == 0 || v4[3] == 255)
}
func oContains(p gPool, ip net.IP) bool {
	if p.Avoid && oBuggy(ip) {
		return false
	}
	for _, c := range p.CIDRs {
		_, n, _ := net.ParseCIDR(c)
		if n.Contains(ip) {
			return true
		}
	}
	return false
}
func oCompatible(p gPool, ns string, lab map[string]string) bool {
	if p.Pin == nil {
		return true
	}
	if len(p.Pin.Nss) > 0 {
		ok := false
		for _, n := range p.Pin.Nss {
			if n == ns {
				ok = true
			}
		}
		if !ok {
			return false
		}
	}
	if len(p.Pin.Sels) > 0 {
		for _, s := range p.Pin.Sels {
			m := true
			for k, v := range s {
				if lab[k] != v {
					m = false
				}
			}
			if m {
				return true
			}
		}
		return false
	}
	return true
}
func oPinnedTo(p gPool, ns string, lab map[string]string) bool {
	if p.Pin == nil || (len(p.Pin.Nss) == 0 && len(p.Pin.Sels) == 0) {
		return false
	}
	return oCompatible(p, ns, lab)
}
func oSelEq(a, b map[string]string) bool {
	if len(a) != len(b) {
		return false
	}
	for k, v := range a {
		if b[k] != v {
			return false
		}
	}
	return true
}

// the statement's sharing rule on two specs
func oShareable(a, b gSpec) bool {
	if a.Sharing == "" || a.Sharing != b.Sharing {
		return false
	}
	for _, x := range a.Ports {
		for _, y := range b.Ports {
			if x == y {
				return false
			}
		}
	}
	if !a.Local && !b.Local {
		return true
	}
	return oSelEq(a.Selector, b.Selector)
}

func oOwner(pools []gPool, ips []net.IP) (gPool, int) {
	n := 0
	var o gPool
	for _, p := range pools {
		all := true
		for _, x := range ips {
			if !oContains(p, x) {
				all = false
			}
		}
		if all {
			n++
			o = p
		}
	}
	return o, n
}

func oFamiliesOK(sp gSpec, ips []net.IP) bool {
	n4, n6 := 0, 0
	for _, x := range ips {
		if x.To4() != nil {
			n4++
		} else {
			n6++
		}
	}
	switch sp.Fam {
	case "ipv4":
		return n4 == 1 && n6 == 0
	case "ipv6":
		return n4 == 0 && n6 == 1
	}
	if sp.Pol == "require" {
		return n4 == 1 && n6 == 1
	}
	return n4 <= 1 && n6 <= 1 && n4+n6 >= 1
}

func sameSet(a, b []net.IP) bool {
	if len(a) != len(b) {
		return false
	}
	for _, x := range a {
		f := false
		for _, y := range b {
			if x.Equal(y) {
				f = true
			}
		}
		if !f {
			return false
		}
	}
	return true
}
func subsetIPs(a, b []net.IP) bool {
	for _, x := range a {
		f := false
		for _, y := range b {
			if x.Equal(y) {
				f = true
			}
		}
		if !f {
			return false
		}
	}
	return true
}

// is (ips) an admissible holding for the service under the pools and its own spec?
func oAdmissible(pools []gPool, name string, sp gSpec, ips []net.IP) bool {
	if !sp.LB || !sp.ClusterOK || len(ips) == 0 {
		return false
	}
	if sp.Pol == "require" && sp.Fam != "dual" {
		return false
	}
	own, n := oOwner(pools, ips)
	if n != 1 || !oCompatible(own, name[:3], sp.Labels) || !oFamiliesOK(sp, ips) {
		return false
	}
	want, inv := gParsedWant(sp)
	if inv {
		return false
	}
	if len(want) > 0 && (!sameSet(want, ips) || !oWantFamilyOK(sp, want)) {
		return false
	}
	if sp.WantPool != "" && sp.WantPool != own.Name {
		return false
	}
	return true
}

// explicitly requested addresses must be of the service's cluster-IP families
func oWantFamilyOK(sp gSpec, want []net.IP) bool {
	n4, n6 := 0, 0
	for _, x := range want {
		if x.To4() != nil {
			n4++
		} else {
			n6++
		}
	}
	switch sp.Fam {
	case "ipv4":
		return n4 == 1 && n6 == 0
	case "ipv6":
		return n4 == 0 && n6 == 1
	}
	return n4 == 1 && n6 == 1
}

type hSnap struct {
	spec gSpec
	ips  []net.IP
}

type hObs struct {
	Statuses map[string][]string `json:"statuses"`
	Annots   map[string]string   `json:"annots"`
	Mem      map[string][]string `json:"mem"`
	Syncs    []int               `json:"syncs"`
}

type hEvent struct {
	Kind  string   `json:"kind"`
	Svc   string   `json:"svc,omitempty"`
	Spec  *gSpec   `json:"spec,omitempty"`
	Pools []gPool  `json:"pools,omitempty"`
	Fail  bool     `json:"fail_write,omitempty"`
	Order []string `json:"order,omitempty"`
	Obs   hObs     `json:"obs"`
}

func TestVerifCtrl(t *testing.T) {
	out := vOpen()
	defer out.Close()
	r := vRand()
	n := vN(60)
	for id := 1; id <= n; id++ {
		hRunHistory(t, out, r, id)
	}
}

func hRunHistory(t *testing.T, out *vOut, r *rand.Rand, id int) {
	scheme := runtime.NewScheme()
	_ = v1.AddToScheme(scheme)
	_ = discovery.AddToScheme(scheme)
	w := &hWorld{t: t, r: r, queue: map[string]bool{}, specs: map[string]gSpec{}}
	base := fake.NewClientBuilder().WithScheme(scheme).Build()
	w.cl = interceptor.NewClient(base, interceptor.Funcs{
		List: func(ctx context.Context, c client.WithWatch, list client.ObjectList, opts ...client.ListOption) error {
			if err := c.List(ctx, list, opts...); err != nil {
				return err
			}
			if sl, ok := list.(*v1.ServiceList); ok && w.shuffle {
				r.Shuffle(len(sl.Items), func(i, j int) { sl.Items[i], sl.Items[j] = sl.Items[j], sl.Items[i] })
			}
			return nil
		},
	})
	w.shuffle = true
	// one history in five runs the reconciler with --lb-class and Services of that class
	gLBClass = ""
	if id%5 == 4 {
		gLBClass = "verif.example/lb"
		out.Stat("lbclass_histories", 1)
	}
	w.newController()

	var events []string
	var human []hEvent
	ranks := map[string]net.IP{}
	fail := func(sig, what string) {
		out.Fail(sig, what, map[string]any{"history": human})
	}

	// snapshot for C03: status sets at the previous quiescent point
	var prevQ map[string]hSnap
	crashedSince := false
	// services whose ports were edited while they held an address, since the last completed full pass (F13b)
	portChanged := map[string]bool{}
	// services whose recorded addresses stopped being admissible (or whose spec was edited) at some point since the last quiescent snapshot
	disturbed := map[string]bool{}
	// statuses recorded in the API at the time of the last restart
	atCrash := map[string][]net.IP{}
	// addresses that, since the last restart, a Service recorded at the restart took in addition to / instead of its own
	// (F14: a PreferDualStack Service gaining the other family; F21: a recorded Service re-allocated) - remembered for the
	// whole epoch, the taker may be gone when the victim is looked at
	takenF14, takenF21 := map[string]bool{}, map[string]bool{}
	atCrashSpec := map[string]gSpec{}
	disturbedCrash := map[string]bool{} // spec edited / addresses inadmissible at some point since the restart

	observe := func() (string, hObs) {
		ob := hObs{Statuses: map[string][]string{}, Annots: map[string]string{}, Mem: map[string][]string{}}
		var api, mem, syncs []string
		for _, name := range gSvcNames {
			s := w.get(name)
			if s != nil {
				ips := gStatusIPs(s)
				for _, x := range ips {
					ranks[x.String()] = x
				}
				an := cNone
				if v, ok := s.Annotations[AnnotationIPAllocateFromPool]; ok {
					an = cSome(cNi(gNum(gNpool, v)))
					ob.Annots[name] = v
				}
				api = append(api, cPair(cNi(gNum(gNsvc, name)), cPair(cIPs(ips), an)))
				ob.Statuses[name] = []string{}
				for _, x := range ips {
					ob.Statuses[name] = append(ob.Statuses[name], x.String())
				}
			}
			if p := w.c.ips.Pool(name); p != "" {
				mem = append(mem, cPair(cNi(gNum(gNsvc, name)), cPair(cNi(gNum(gNpool, p)), cIPs(w.c.ips.IPs(name)))))
				for _, x := range w.c.ips.IPs(name) {
					ob.Mem[name] = append(ob.Mem[name], x.String())
					ranks[x.String()] = x
				}
			}
		}
		for _, s := range w.syncs {
			syncs = append(syncs, []string{"Success", "Error", "ReprocessAll", "ErrorNoRetry"}[int(s)])
			ob.Syncs = append(ob.Syncs, int(s))
		}
		return cCtor("Build_wobs", cList(api), cList(mem), cList(syncs)), ob
	}

	record := func(ev string, h hEvent) {
		obs, ho := observe()
		h.Obs = ho
		events = append(events, cPair(ev, obs))
		human = append(human, h)
	}

	finalOf := func(name string) string {
		if p := w.c.ips.Pool(name); p != "" {
			return cSome(cPair(cNi(gNum(gNpool, p)), cIPs(w.c.ips.IPs(name))))
		}
		return cNone
	}

	doPut := func(name string, sp gSpec) {
		old := w.get(name)
		if osp, ok := w.specs[name]; ok && old != nil && len(gStatusIPs(old)) > 0 && fmt.Sprint(osp.Ports) != fmt.Sprint(sp.Ports) {
			portChanged[name] = true
		}
		obj := gApplySpec(name, sp, old)
		for _, s := range sp.WantIPs {
			if ip := net.ParseIP(s); ip != nil {
				ranks[ip.String()] = ip
			}
		}
		var err error
		if old == nil {
			err = w.cl.Create(context.TODO(), obj)
		} else {
			err = w.cl.Update(context.TODO(), obj)
		}
		if err != nil {
			t.Fatalf("api put: %v", err)
		}
		if osp, ok := w.specs[name]; !ok || fmt.Sprint(osp) != fmt.Sprint(sp) {
			disturbed[name] = true
			disturbedCrash[name] = true
		}
		w.specs[name] = sp
		w.queue[name] = true
		w.syncs, w.order = nil, nil
		record(cCtor("UPut", cNi(gNum(gNsvc, name)), cSvcObj(obj, sp)), hEvent{Kind: "put", Svc: name, Spec: &sp})
		out.Stat("ev_put", 1)
	}
	// the Service is deleted but kept by a finalizer: it still exists, holds its address and is an ordinary Service for
	// MetalLB (the model sees an update that changes nothing)
	doTerminate := func(name string) {
		s := w.get(name)
		if s == nil || s.DeletionTimestamp != nil {
			return
		}
		s.Finalizers = append(s.Finalizers, "verif.example/hold")
		if err := w.cl.Update(context.TODO(), s); err != nil {
			t.Fatalf("api finalizer: %v", err)
		}
		if err := w.cl.Delete(context.TODO(), w.get(name)); err != nil {
			t.Fatalf("api delete (terminating): %v", err)
		}
		obj := w.get(name)
		if obj == nil || obj.DeletionTimestamp == nil {
			out.Stat("terminate_not_supported_by_fake_client", 1)
			if obj == nil { // the fake client removed it: treat as a deletion
				delete(w.specs, name)
				disturbed[name], disturbedCrash[name] = true, true
				w.queue[name] = true
				record(cCtor("UDel", cNi(gNum(gNsvc, name))), hEvent{Kind: "del", Svc: name})
			}
			return
		}
		sp := w.specs[name]
		w.queue[name] = true
		w.syncs, w.order = nil, nil
		record(cCtor("UPut", cNi(gNum(gNsvc, name)), cSvcObj(obj, sp)), hEvent{Kind: "put", Svc: name, Spec: &sp})
		out.Stat("ev_terminate", 1)
	}
	doDel := func(name string) {
		s := w.get(name)
		if s == nil {
			return
		}
		if s.DeletionTimestamp != nil {
			s.Finalizers = nil
			if err := w.cl.Update(context.TODO(), s); err != nil {
				t.Fatalf("api finalizer removal: %v", err)
			}
			if left := w.get(name); left != nil {
				if err := w.cl.Delete(context.TODO(), left); err != nil {
					t.Fatalf("api delete: %v", err)
				}
			}
		} else if err := w.cl.Delete(context.TODO(), s); err != nil {
			t.Fatalf("api delete: %v", err)
		}
		delete(w.specs, name)
		disturbed[name] = true
		disturbedCrash[name] = true
		w.queue[name] = true
		w.syncs, w.order = nil, nil
		record(cCtor("UDel", cNi(gNum(gNsvc, name))), hEvent{Kind: "del", Svc: name})
		out.Stat("ev_del", 1)
	}
	doPools := func(ps []gPool) {
		w.syncs, w.order = nil, nil
		res := w.c.SetPools(log.NewNopLogger(), gBuildPools(ps))
		if res == controllers.SyncStateReprocessAll {
			w.reload = true
		} else {
			out.Stat("setpools_without_resync_request", 1)
		}
		w.pools = ps
		for nm, sn := range prevQ {
			if len(sn.ips) > 0 && !oAdmissible(ps, nm, sn.spec, sn.ips) {
				disturbed[nm] = true
			}
		}
		for nm, ips := range atCrash {
			if len(ips) > 0 && !oAdmissible(ps, nm, atCrashSpec[nm], ips) {
				disturbedCrash[nm] = true
			}
		}
		for _, nm := range w.existing() { // what the service holds right now (it may have gained an address since)
			if ips := gStatusIPs(w.get(nm)); len(ips) > 0 && !oAdmissible(ps, nm, w.specs[nm], ips) {
				disturbed[nm] = true
			}
		}
		record(cCtor("EPools", cPools(ps)), hEvent{Kind: "pools", Pools: ps})
		out.Stat("ev_pools", 1)
	}
	doSvc := func(name string, failWrite bool) {
		w.syncs, w.order = nil, nil
		w.failNext = failWrite
		writes0 := w.writes
		_, err := w.rec.Reconcile(context.TODO(), ctrl.Request{NamespacedName: types.NamespacedName{Namespace: name[:3], Name: name[4:]}})
		wrote := w.writes > writes0
		failed := failWrite && wrote
		w.failNext = false
		w.drainReloadChan()
		if err == nil {
			delete(w.queue, name)
		}
		k := cCtor("Build_oracle", cBool(!failed), finalOf(name))
		record(cCtor("ESvc", cNi(gNum(gNsvc, name)), k), hEvent{Kind: "svc", Svc: name, Fail: failed})
		out.Stat("ev_svc", 1)
		if len(w.syncs) == 0 {
			out.Stat("ev_svc_dropped_by_gate", 1)
		}
		if failed {
			out.Stat("failed_writes", 1)
		}
	}
	doReload := func(failIdx int) {
		w.syncs, w.order = nil, nil
		// one oracle per handler call: record the allocation after each call via the wrapper
		var ks []string
		var names []string
		calls := 0
		origHandler := w.rec.Handler
		w.rec.Handler = func(l log.Logger, name string, svc *v1.Service, eps []discovery.EndpointSlice) controllers.SyncState {
			writes0 := w.writes
			w.failNext = calls == failIdx
			res := origHandler(l, name, svc, eps)
			failed := w.failNext == false && calls == failIdx && w.writes > writes0
			w.failNext = false
			calls++
			ks = append(ks, cCtor("Build_oracle", cBool(!failed), finalOf(name)))
			names = append(names, name)
			if failed {
				out.Stat("failed_writes", 1)
			}
			return res
		}
		_, err := w.rec.Reconcile(context.TODO(), ctrl.Request{NamespacedName: types.NamespacedName{Namespace: "metallbreload", Name: "reload"}})
		w.rec.Handler = origHandler
		w.drainReloadChan()
		w.reload = err != nil
		if err == nil {
			portChanged = map[string]bool{}
		}
		if crashedSince {
			// C06/C03: every pass after a restart (complete or to be retried) must keep every recorded, still admissible address
			if err == nil {
				crashedSince = false
			}
			out.Stat("restart_checks", 1)
			for _, other := range w.existing() {
				hadO := atCrash[other]
				if len(hadO) == 0 {
					continue
				}
				mem := w.c.ips.IPs(other)
				osp := w.specs[other]
				gain := osp.Pol == "prefer" && len(hadO) == 1 && len(mem) == 2 && subsetIPs(hadO, mem)
				for _, y := range append(append([]net.IP{}, gStatusIPs(w.get(other))...), mem...) { // its status write may have failed in this pass
					if !subsetIPs([]net.IP{y}, hadO) {
						if gain {
							takenF14[y.String()] = true
						} else {
							takenF21[y.String()] = true
						}
					}
				}
			}
			for nm, had := range atCrash {
				cs := w.get(nm)
				if len(had) == 0 || disturbedCrash[nm] || cs == nil {
					continue
				}
				sp := atCrashSpec[nm]
				now := gStatusIPs(cs)
				okGain := sp.Pol == "prefer" && sp.Fam == "dual" && len(had) == 1 && len(now) == 2 && subsetIPs(had, now)
				if sameSet(had, now) || okGain {
					continue
				}
				disturbed[nm] = true // reported here, not again by the stability check
				disturbedCrash[nm] = true
				// "still admissible" is joint: a co-tenant recorded on the same address whose request was edited so that the
				// two may no longer share it (key dropped, colliding port, other backends) makes the pair inadmissible -
				// one of them has to go, which one is the pass order's choice
				joint := true
				for _, other := range w.existing() {
					if other == nm {
						continue
					}
					for _, x := range had {
						if subsetIPs([]net.IP{x}, atCrash[other]) && !oShareableCode(sp, w.specs[other]) {
							joint = false
						}
					}
				}
				if !joint {
					out.Stat("restart_cotenants_no_longer_shareable", 1)
					continue
				}
				sig := "restart-changed-admissible-status"
				for _, x := range had {
					if takenF14[x.String()] {
						sig = "restart-preferdual-additional-steals"
					} else if takenF21[x.String()] && sig != "restart-preferdual-additional-steals" {
						sig = "restart-recorded-service-reallocates-before-victim"
					}
				}
				others := map[string][]string{}
				for _, other := range w.existing() {
					others[other] = gIPStrs(gStatusIPs(w.get(other)))
				}
				fail(sig, fmt.Sprintf("%s had %v recorded at the restart (still admissible, spec unchanged) and holds %v after a full pass; statuses now %v, at the restart %v", nm, had, now, others, atCrash))
			}
		}
		var ord []string
		for _, nm := range names {
			ord = append(ord, cNi(gNum(gNsvc, nm)))
		}
		record(cCtor("EReload", cList(ord), cList(ks)), hEvent{Kind: "reload", Order: names})
		out.Stat("ev_reload", 1)
		if err != nil {
			out.Stat("reload_retry", 1)
		}
	}
	doCrash := func() {
		w.newController()
		w.queue = map[string]bool{}
		for _, nm := range w.existing() {
			w.queue[nm] = true
		}
		w.reload = false
		w.syncs, w.order = nil, nil
		crashedSince = true
		atCrash = map[string][]net.IP{}
		atCrashSpec = map[string]gSpec{}
		takenF14, takenF21 = map[string]bool{}, map[string]bool{}
		disturbedCrash = map[string]bool{}
		for _, nm := range w.existing() {
			atCrash[nm] = gStatusIPs(w.get(nm))
			atCrashSpec[nm] = w.specs[nm]
		}
		record("ECrash", hEvent{Kind: "crash"})
		out.Stat("ev_crash", 1)
	}

	quiescent := func() bool { return !w.reload && len(w.queue) == 0 }
	pendingNames := func() []string {
		var q []string
		for k := range w.queue {
			q = append(q, k)
		}
		sort.Strings(q)
		return q
	}
	// Proofs/CtrlProgressP.v (C07_resync_loop_terminates): with a configuration loaded and no
	// explicitly requested addresses, reconciler steps whose writes succeed are at most
	// |queue| + 2*|queue and API services| + 1; the implementation is held to that bound
	drain := func() bool {
		budget, proved := 60, len(w.pools) > 0
		univ := map[string]bool{}
		for k := range w.queue {
			univ[k] = true
		}
		for _, nm := range w.existing() {
			univ[nm] = true
			if w.specs[nm].WantKind != "" {
				proved = false
			}
		}
		if proved {
			budget = len(w.queue) + 2*len(univ) + 1
		}
		steps := 0
		for i := 0; i < budget && !quiescent(); i++ {
			q := pendingNames()
			if w.reload && (len(q) == 0 || r.Intn(2) == 0) {
				doReload(-1)
			} else if len(q) > 0 {
				doSvc(q[r.Intn(len(q))], false)
			}
			steps++
		}
		if proved {
			out.Stat("drains_under_proved_bound", 1)
			out.Stat("drain_steps_under_proved_bound", steps)
			if !quiescent() {
				fail("ctrl-exceeds-proved-settling-bound", fmt.Sprintf("%d reconciler steps with successful writes and still pending work; the proved bound is %d", steps, budget))
			}
		}
		return quiescent()
	}

	checkQuiescent := func() {
		out.Stat("quiescent_points", 1)
		names := w.existing()
		cur := map[string]hSnap{}
		for _, nm := range names {
			s := w.get(nm)
			sp := w.specs[nm]
			ips := gStatusIPs(s)
			cur[nm] = hSnap{spec: sp, ips: ips}
			// C06: memory equals statuses
			mem := w.c.ips.IPs(nm)
			if !sameSet(mem, ips) {
				fail("ctrl-memory-differs-from-status", fmt.Sprintf("%s: status %v, allocator %v at quiescence", nm, ips, mem))
			}
			if len(ips) > 0 {
				_, invReq := gParsedWant(sp)
				if s.Annotations[AnnotationIPAllocateFromPool] != w.c.ips.Pool(nm) {
					fail(map[bool]string{false: "ctrl-annotation-differs-from-memory", true: "stale-annotation-with-invalid-address-request"}[invReq], fmt.Sprintf("%s: annotation %q, allocator pool %q", nm, s.Annotations[AnnotationIPAllocateFromPool], w.c.ips.Pool(nm)))
				}
				// C02: pool membership / policy / explicit requests
				own, n := oOwner(w.pools, ips)
				if n != 1 {
					fail("status-not-in-exactly-one-pool", fmt.Sprintf("%s holds %v which lies in %d pools", nm, ips, n))
				} else {
					if s.Annotations[AnnotationIPAllocateFromPool] != own.Name {
						fail(map[bool]string{false: "status-annotation-not-owning-pool", true: "stale-annotation-with-invalid-address-request"}[invReq], fmt.Sprintf("%s holds %v of pool %s, annotation says %q", nm, ips, own.Name, s.Annotations[AnnotationIPAllocateFromPool]))
					}
					if !oCompatible(own, nm[:3], sp.Labels) {
						fail("status-pool-not-compatible", fmt.Sprintf("%s (labels %v) holds %v from pool %s whose selectors do not admit it", nm, sp.Labels, ips, own.Name))
					}
					if sp.WantPool != "" && sp.WantPool != own.Name {
						fail("status-not-from-requested-pool", fmt.Sprintf("%s requested pool %s but holds %v of %s", nm, sp.WantPool, ips, own.Name))
					}
				}
				want, _ := gParsedWant(sp)
				if len(want) > 0 && !sameSet(want, ips) {
					sig := "status-not-the-requested-addresses"
					if sp.Pol == "prefer" && sp.Fam == "dual" && len(want) == 1 && len(ips) == 2 && subsetIPs(want, ips) {
						sig = "preferdual-gain-despite-single-requested-address"
					}
					fail(sig, fmt.Sprintf("%s requested %v but holds %v", nm, want, ips))
				}
				if !oFamiliesOK(sp, ips) {
					if sp.Pol == "prefer" && sp.Fam != "dual" {
						fail("prefer-dual-on-single-stack-cluster-gets-two", fmt.Sprintf("%s (cluster %s, PreferDualStack) holds %v", nm, sp.Fam, ips))
					} else {
						fail("status-wrong-families", fmt.Sprintf("%s (%s/%s) holds %v", nm, sp.Fam, sp.Pol, ips))
					}
				}
				if !sp.LB {
					fail("status-on-non-loadbalancer", fmt.Sprintf("%s is not a LoadBalancer but holds %v", nm, ips))
				}
			}
		}
		// C01: exclusivity of statuses
		for i, a := range names {
			for _, b := range names[i+1:] {
				for _, x := range cur[a].ips {
					for _, y := range cur[b].ips {
						if x.Equal(y) {
							out.Stat("shared_status_pairs", 1)
							if !oShareable(cur[a].spec, cur[b].spec) {
								sa, sb := cur[a].spec, cur[b].spec
								if sa.Sharing != "" && sa.Sharing == sb.Sharing && (sa.Local != sb.Local) &&
									((sa.Local && len(sa.Selector) == 0) || (sb.Local && len(sb.Selector) == 0)) {
									fail("backendkey-local-empty-selector-equals-cluster", fmt.Sprintf("%s and %s share %s: one is Local with an empty selector, the other Cluster", a, b, x))
								} else {
									fail("status-exclusivity", fmt.Sprintf("%s and %s both hold %s but may not share it", a, b, x))
								}
							}
						}
					}
				}
			}
		}
		// C07: a LoadBalancer service without address only if nothing is admissible
		starved := false
		for _, nm := range names {
			sp := w.specs[nm]
			if len(cur[nm].ips) > 0 || !sp.LB || !sp.ClusterOK {
				continue
			}
			out.Stat("pending_services_at_quiescence", 1)
			oCodeSharing = true
			if _, _, okCode := oFindAdmissible(w.pools, nm, sp, cur); okCode {
				starved = true // the implementation's own sharing rule (F7) would serve it: the re-sync below may write
			}
			oCodeSharing = false
			if cand, onlyShared, ok := oFindAdmissible(w.pools, nm, sp, cur); ok {
				oStrictSharing = true
				_, _, okStrict := oFindAdmissible(w.pools, nm, sp, cur)
				oStrictSharing = false
				sig := "starved-though-free-address-admissible"
				if onlyShared {
					sig = "starved-only-shareable-candidate"
					for _, x := range cand {
						for h, sn := range cur {
							for _, y := range sn.ips {
								if h != nm && y.Equal(x) && portChanged[h] {
									sig = "no-reload-on-port-change"
								}
							}
						}
					}
				}
				if !okStrict {
					sig = "mixed-policy-identical-selectors-refused"
				} else {
					starved = true // the re-sync below will (rightly) hand it an address: not a C03 matter
				}
				fail(sig, fmt.Sprintf("%s (%+v) has no address at quiescence although %v is admissible", nm, sp, cand))
			}
		}
		// C03: stability since the previous quiescent point
		if prevQ != nil {
			for _, nm := range names {
				p, ok := prevQ[nm]
				if !ok || len(p.ips) == 0 {
					continue
				}
				spNow := w.specs[nm]
				if fmt.Sprint(p.spec) != fmt.Sprint(spNow) || disturbed[nm] {
					continue
				}
				if !oAdmissible(w.pools, nm, spNow, p.ips) {
					continue
				}
				out.Stat("stability_checks", 1)
				now := cur[nm].ips
				okGain := spNow.Pol == "prefer" && spNow.Fam == "dual" && len(p.ips) == 1 && len(now) == 2 && subsetIPs(p.ips, now)
				if !sameSet(p.ips, now) && !okGain {
					sig := "status-changed-spontaneously"
					fail(sig, fmt.Sprintf("%s held %v (still admissible, spec unchanged) and now holds %v", nm, p.ips, now))
				}
			}
		}
		prevQ = cur
		disturbed = map[string]bool{}
		// C03: re-processing converged services writes nothing
		// (at most one normalising write: a status whose addresses are only re-ordered)
		f22, onlyGains := false, true
		resync := func() (int, bool) {
			before := map[string][]net.IP{}
			for _, nm := range w.existing() {
				before[nm] = gStatusIPs(w.get(nm))
			}
			writes0 := w.writes
			w.reload = true
			w.syncs, w.order = nil, nil
			record("EKick", hEvent{Kind: "kick"})
			doReload(-1)
			sameSets := true
			for _, nm := range w.existing() {
				if now := gStatusIPs(w.get(nm)); !sameSet(before[nm], now) {
					sameSets = false
					sp := w.specs[nm]
					want, _ := gParsedWant(sp)
					if sp.Pol == "prefer" && sp.Fam == "dual" && len(want) == 1 {
						f22 = true
					}
					// the one change C03 permits: a PreferDualStack Service holding one address gains the missing family
					// (it can become possible without any re-sync being requested, e.g. a co-tenant's ports were edited: F13b)
					if !(sp.Pol == "prefer" && sp.Fam == "dual" && len(want) == 0 && len(before[nm]) == 1 && len(now) == 2 && subsetIPs(before[nm], now)) {
						onlyGains = false
					}
				}
			}
			return w.writes - writes0, sameSets
		}
		if id%3 == 1 {
			// one history in three runs without this oracle: its extra full re-sync repairs the state a missing
			// re-sync request leaves behind and would hide it from every later oracle of the history
			out.Stat("quiescent_points_without_resync_oracle", 1)
			return
		}
		nw, same := resync()
		if nw > 0 && !same && onlyGains {
			out.Stat("permitted_preferdual_gains_at_resync", 1)
			nw, same = resync()
		}
		if nw > 0 && same {
			out.Stat("normalising_writes", nw)
			nw, same = resync()
		}
		if starved {
			nw = 0
		}
		if nw > 0 && f22 && !same {
			fail("preferdual-gain-despite-single-requested-address", "a PreferDualStack service requesting one address gained a second one and was cleared by the next re-sync")
		} else if nw > 0 {
			fail("converged-service-rewritten", fmt.Sprintf("a full re-sync at quiescence performed %d status writes (addresses changed: %v)", nw, !same))
		}
		drain()
	}

	// ---- the history
	if id%8 == 0 {
		// directed prefix: a PreferDualStack service with one address next to the holder of the pool's only IPv6 address, then a restart
		doPools([]gPool{{Name: "pa", CIDRs: []string{"10.0.0.0/30", "fc00:1::/128"}, Auto: true}})
		six := gSpec{LB: true, Fam: "ipv6", ClusterOK: true, Pol: "single", First6: true, Ports: []int{0}}
		dual := gSpec{LB: true, Fam: "dual", ClusterOK: true, Pol: "prefer", Ports: []int{1}}
		doPut("ns1/a", six)
		doPut("ns1/b", dual)
		doReload(-1)
		if drain() {
			checkQuiescent()
		}
		doCrash()
		doPools(w.pools)
		out.Stat("directed_restart_scenarios", 1)
	} else if id%8 == 1 {
		// directed: a waiter that can only SHARE the single address; the holder is then edited so that sharing becomes possible
		doPools([]gPool{{Name: "pa", CIDRs: []string{"10.0.5.6/32"}, Auto: true}})
		holder := gSpec{LB: true, Fam: "ipv4", ClusterOK: true, Pol: "single", Ports: []int{0}, Sharing: "k1", Local: true, Selector: map[string]string{"app": "a"}}
		waiter := gSpec{LB: true, Fam: "ipv4", ClusterOK: true, Pol: "single", Ports: []int{1}, Sharing: "k1", Local: true, Selector: map[string]string{"app": "b"}}
		doPut("ns1/a", holder)
		doReload(-1)
		drain()
		doPut("ns1/b", waiter)
		if drain() {
			checkQuiescent()
		}
		switch r.Intn(3) {
		case 0: // same pods now
			holder.Selector = map[string]string{"app": "b"}
		case 1: // both Cluster
			holder.Local, waiter.Local = false, false
			doPut("ns1/b", waiter)
		default: // the holder gives the address up
			holder.LB = false
		}
		doPut("ns1/a", holder)
		if drain() {
			checkQuiescent()
		}
		out.Stat("directed_sharing_scenarios", 1)
	} else if id%8 == 2 {
		// directed: a dual-stack service whose IPv6 address is shared with a single-stack one changes its sharing key
		doPools([]gPool{{Name: "pa", CIDRs: []string{"10.0.0.4/31", "fc00::4/127"}, Auto: true}})
		six := gSpec{LB: true, Fam: "ipv6", ClusterOK: true, Pol: "single", First6: true, Ports: []int{0}, Sharing: "k1"}
		dual := gSpec{LB: true, Fam: "dual", ClusterOK: true, Pol: "require", Ports: []int{1}, Sharing: "k1", WantKind: "annot", WantIPs: []string{"10.0.0.4", "fc00::4"}}
		doPut("ns1/b", six)
		doReload(-1)
		drain()
		doPut("ns1/a", dual)
		if drain() {
			checkQuiescent()
		}
		variant := r.Intn(3)
		if variant != 2 {
			// make the dual-stack service the one that was synced last on the shared address
			doPut("ns1/a", dual)
			drain()
		}
		dual.Sharing = []string{"k2", "k2", ""}[variant]
		doPut("ns1/a", dual)
		// the single-stack co-tenant is re-synced on its own, then everything settles
		doPut("ns1/b", six)
		if drain() {
			checkQuiescent()
		}
		out.Stat("directed_dualstack_sharing_scenarios", 1)
	} else if id%8 == 3 {
		// directed: the status write fails twice in a row while the allocation moves to another pool
		// (status still empty, so neither memory nor the status shows the released address on the third attempt)
		doPools([]gPool{{Name: "pa", CIDRs: []string{"10.0.5.6/32"}, Auto: true}, {Name: "pb", CIDRs: []string{"10.0.3.0/32"}, Auto: true}})
		doReload(-1)
		mover := gSpec{LB: true, Fam: "ipv4", ClusterOK: true, Pol: "single", Ports: []int{0}, WantPool: "pa"}
		waiter := gSpec{LB: true, Fam: "ipv4", ClusterOK: true, Pol: "single", Ports: []int{1}, WantPool: "pa"}
		doPut("ns1/a", mover)
		doSvc("ns1/a", true)
		doPut("ns1/b", waiter)
		doSvc("ns1/b", false)
		switch r.Intn(3) {
		case 0:
			mover.WantPool = "pb"
		case 1:
			mover.WantKind, mover.WantIPs, mover.WantPool = "annot", []string{"10.0.3.0"}, ""
		default:
			mover.LB = false
		}
		doPut("ns1/a", mover)
		doSvc("ns1/a", true)
		if drain() {
			checkQuiescent()
		}
		out.Stat("directed_failed_write_scenarios", 1)
	} else if id%8 == 4 {
		four := gSpec{LB: true, Fam: "ipv4", ClusterOK: true, Pol: "single", Ports: []int{0}}
		switch r.Intn(4) {
		case 0:
			// directed: a dual-stack Service gives back ONE of its two addresses (it becomes single-stack); the
			// Service waiting for that family must get it in the same settling period
			doPools([]gPool{{Name: "pa", CIDRs: []string{"10.0.0.0/30", "fc00:1::/128"}, Auto: true}})
			doReload(-1)
			dual := gSpec{LB: true, Fam: "dual", ClusterOK: true, Pol: "require", Ports: []int{1}}
			doPut("ns1/a", dual)
			doSvc("ns1/a", false)
			doPut("ns1/b", gSpec{LB: true, Fam: "ipv6", ClusterOK: true, Pol: "single", First6: true, Ports: []int{2}})
			doSvc("ns1/b", false)
			if drain() {
				checkQuiescent()
			}
			if r.Intn(2) == 0 {
				dual.Fam, dual.Pol = "ipv4", "single"
			} else {
				dual.Fam, dual.Pol, dual.First6 = "ipv6", "single", true // ... or keeps the IPv6 one: the IPv4 waiter is served
				doPut("ns1/b", gSpec{LB: true, Fam: "ipv4", ClusterOK: true, Pol: "single", Ports: []int{2}, WantKind: "spec", WantIPs: []string{"10.0.0.0"}})
				doSvc("ns1/b", false)
			}
			doPut("ns1/a", dual)
			doSvc("ns1/a", false)
			if drain() {
				checkQuiescent()
			}
			out.Stat("directed_dualstack_gives_back_one_scenarios", 1)
		case 1:
			// directed: a Service holding an address gets a malformed address request; after a restart its recorded
			// address must still be registered before anybody else is served
			doPools([]gPool{{Name: "pa", CIDRs: []string{"10.0.0.0/30"}, Auto: true}})
			doReload(-1)
			doPut("ns1/a", four)
			doSvc("ns1/a", false)
			if drain() {
				checkQuiescent()
			}
			bad := four
			if r.Intn(2) == 0 {
				bad.WantKind, bad.WantIPs = "both", []string{"10.0.0.0"}
			} else {
				bad.WantKind, bad.WantIPs = "invalid", []string{"not-an-ip"}
			}
			doPut("ns1/a", bad)
			doSvc("ns1/a", false)
			doCrash()
			doPut("ns1/b", gSpec{LB: true, Fam: "ipv4", ClusterOK: true, Pol: "single", Ports: []int{1}})
			doPools([]gPool{{Name: "pa", CIDRs: []string{"10.0.0.0/30"}, Auto: true}})
			if drain() {
				checkQuiescent()
			}
			out.Stat("directed_malformed_request_restart_scenarios", 1)
		case 2:
			// directed: pool flap - the pool of a holder is removed (the holder moves elsewhere) and comes back; every
			// address of the restored range must be usable again (no ghost holder left in the allocator)
			pa := gPool{Name: "pa", CIDRs: []string{"10.0.0.4/31"}, Auto: true}
			pb := gPool{Name: "pb", CIDRs: []string{"10.0.3.0/32"}, Auto: true}
			doPools([]gPool{pa, pb})
			doReload(-1)
			doPut("ns1/a", gSpec{LB: true, Fam: "ipv4", ClusterOK: true, Pol: "single", Ports: []int{0}, WantPool: "pa"})
			doSvc("ns1/a", r.Intn(2) == 0) // sometimes the address is chosen while the status write fails
			if drain() {
				checkQuiescent()
			}
			mover := gSpec{LB: true, Fam: "ipv4", ClusterOK: true, Pol: "single", Ports: []int{0}}
			doPut("ns1/a", mover)
			doPools([]gPool{pb})
			if drain() {
				checkQuiescent()
			}
			doPools([]gPool{pa, pb})
			doPut("ns1/b", gSpec{LB: true, Fam: "ipv4", ClusterOK: true, Pol: "single", Ports: []int{0}, WantPool: "pa"})
			doPut("ns2/c", gSpec{LB: true, Fam: "ipv4", ClusterOK: true, Pol: "single", Ports: []int{0}, WantPool: "pa"})
			if drain() {
				checkQuiescent()
			}
			out.Stat("directed_pool_flap_scenarios", 1)
		default:
			// directed: a Service kept terminating by a finalizer still holds its address across a restart
			doPools([]gPool{{Name: "pa", CIDRs: []string{"10.0.0.0/30"}, Auto: true}})
			doReload(-1)
			doPut("ns1/a", four)
			doSvc("ns1/a", false)
			keep := four
			keep.Ports = []int{1}
			doPut("ns1/b", keep)
			doSvc("ns1/b", false)
			if drain() {
				checkQuiescent()
			}
			doTerminate("ns1/a")
			doSvc("ns1/a", false)
			doCrash()
			doPut("ns2/c", gSpec{LB: true, Fam: "ipv4", ClusterOK: true, Pol: "single", Ports: []int{2}})
			doPools([]gPool{{Name: "pa", CIDRs: []string{"10.0.0.0/30"}, Auto: true}})
			if drain() {
				checkQuiescent()
			}
			out.Stat("directed_terminating_restart_scenarios", 1)
		}
	} else if id%8 == 5 {
		// directed: one address, a holder using one port number on two protocols, a sharer colliding on one of them
		doPools([]gPool{{Name: "pa", CIDRs: []string{"10.0.5.6/32"}, Auto: true}})
		doReload(-1)
		first, second := 3, 2 // TCP/53 then UDP/53
		if r.Intn(2) == 0 {
			first, second = 0, 4 // TCP/80 then UDP/80
		}
		holder := gSpec{LB: true, Fam: "ipv4", ClusterOK: true, Pol: "single", Ports: []int{first, second}, Sharing: "k1"}
		sharer := gSpec{LB: true, Fam: "ipv4", ClusterOK: true, Pol: "single", Ports: []int{[]int{first, second}[r.Intn(2)]}, Sharing: "k1"}
		doPut("ns1/a", holder)
		doSvc("ns1/a", false)
		doPut("ns1/b", sharer)
		doSvc("ns1/b", false)
		if drain() {
			checkQuiescent()
		}
		out.Stat("directed_mixed_protocol_scenarios", 1)
		if r.Intn(2) == 0 {
			// ... then a second co-tenant on a free port is assigned after the holder and leaves again, the remaining sole
			// owner changes its sharing key in place, and a Service carrying the NEW key on another port must be able
			// to share the pool's only address
			doPut("ns1/e", gSpec{LB: true, Fam: "ipv4", ClusterOK: true, Pol: "single", Ports: []int{1}, Sharing: "k1"})
			doSvc("ns1/e", false)
			if drain() {
				checkQuiescent()
			}
			doDel("ns1/e")
			if drain() {
				checkQuiescent()
			}
			holder.Sharing = "k2"
			doPut("ns1/a", holder)
			doSvc("ns1/a", false)
			doPut("ns2/c", gSpec{LB: true, Fam: "ipv4", ClusterOK: true, Pol: "single", Ports: []int{1}, Sharing: "k2"})
			doSvc("ns2/c", false)
			if drain() {
				checkQuiescent()
			}
			out.Stat("directed_key_change_after_cotenant_left_scenarios", 1)
		}
	} else if id%8 == 6 {
		// directed: a PreferDualStack Service first gets one family only (the pool's single IPv6 address is
		// taken), later gains the other one: it must keep the address it holds (AllocateFromPoolForAdditionalFamily)
		doPools([]gPool{{Name: "pa", CIDRs: []string{"10.0.0.0/30", "fc00:1::/128"}, Auto: true}})
		doReload(-1)
		six := gSpec{LB: true, Fam: "ipv6", ClusterOK: true, Pol: "single", First6: true, Ports: []int{0}}
		pref := gSpec{LB: true, Fam: "dual", ClusterOK: true, Pol: "prefer", Ports: []int{1}}
		doPut("ns1/a", six)
		doSvc("ns1/a", false)
		lower := r.Intn(2) == 0
		if lower {
			// an IPv4 holder that takes the lowest address first and leaves again: the address the
			// PreferDualStack Service holds is then not the first usable one of its family
			doPut("ns2/c", gSpec{LB: true, Fam: "ipv4", ClusterOK: true, Pol: "single", Ports: []int{2}})
			doSvc("ns2/c", false)
		}
		doPut("ns1/b", pref)
		doSvc("ns1/b", false)
		if drain() {
			checkQuiescent()
		}
		if lower {
			doDel("ns2/c")
			if drain() {
				checkQuiescent()
			}
		}
		if r.Intn(2) == 0 {
			// the holder of ONE address now explicitly requests that address plus the IPv6 one that is still taken:
			// it must get exactly the pair or nothing ("holds exactly the requested addresses" is not "a subset of them")
			held := gIPStrs(gStatusIPs(w.get("ns1/b")))
			if len(held) == 1 {
				grown := pref
				grown.WantKind, grown.WantIPs = "annot", []string{held[0], "fc00:1::"}
				doPut("ns1/b", grown)
				doSvc("ns1/b", false)
				if drain() {
					checkQuiescent()
				}
				doPut("ns1/b", pref)
				doSvc("ns1/b", false)
				if drain() {
					checkQuiescent()
				}
				out.Stat("directed_request_grown_beyond_held_scenarios", 1)
			}
		}
		doDel("ns1/a")
		if drain() {
			checkQuiescent()
		}
		out.Stat("directed_additional_family_scenarios", 1)
	} else if id%8 == 7 {
		// directed: a dual-stack Service holding the two addresses it asked for edits its request to a
		// proper subset / superset-by-order of them: "holds exactly the requested addresses" is set equality
		doPools([]gPool{{Name: "pa", CIDRs: []string{"10.0.0.4/31", "fc00::4/127"}, Auto: true}})
		doReload(-1)
		pol := []string{"require", "prefer"}[r.Intn(2)]
		dual := gSpec{LB: true, Fam: "dual", ClusterOK: true, Pol: pol, Ports: []int{1}, WantKind: "annot", WantIPs: []string{"10.0.0.4", "fc00::4"}}
		if r.Intn(2) == 0 {
			dual.WantIPs = []string{"fc00::4", "10.0.0.4"} // the written status is in its canonical order whatever the request's order
		}
		doPut("ns1/a", dual)
		doSvc("ns1/a", false)
		if drain() {
			checkQuiescent()
		}
		switch r.Intn(3) {
		case 0:
			dual.WantIPs = []string{"10.0.0.4"}
		case 1:
			dual.WantIPs = []string{"fc00::4"}
		default:
			dual.WantIPs = []string{"fc00::4", "10.0.0.4"} // same set, other order: nothing may change
		}
		doPut("ns1/a", dual)
		doSvc("ns1/a", false)
		if drain() {
			checkQuiescent()
		}
		out.Stat("directed_requested_subset_scenarios", 1)
		// ... and the same pool layout with avoidBuggyIPs toggled on and off under the holder of a .0 address
		// (SetPools drops the allocation; the re-sync it requests has to move the Service and fix its status)
		if r.Intn(2) == 0 {
			base := []gPool{{Name: "pa", CIDRs: []string{"10.0.0.4/31", "fc00::4/127"}, Auto: true}, {Name: "pb", CIDRs: []string{"10.0.1.0/31"}, Auto: true}}
			doPut("ns2/c", gSpec{LB: true, Fam: "ipv4", ClusterOK: true, Pol: "single", Ports: []int{2}, WantPool: "pb"})
			doPools(base)
			if drain() {
				checkQuiescent()
			}
			base[1].Avoid = true
			doPools(base)
			if drain() {
				checkQuiescent()
			}
			base[1].Avoid = false
			doPools(base)
			doPut("ns2/d", gSpec{LB: true, Fam: "ipv4", ClusterOK: true, Pol: "single", Ports: []int{3}, WantPool: "pb"})
			if drain() {
				checkQuiescent()
			}
			out.Stat("directed_avoid_toggle_scenarios", 1)
		} else {
			// ... or a dual-stack pair requested IPv6-first whose IPv4 half is a .255 / .0 address of a pool avoiding them
			doPools([]gPool{{Name: "pa", CIDRs: []string{"10.0.0.4/31", "fc00::4/127"}, Auto: true}, {Name: "pc", CIDRs: []string{"10.0.0.254/31", "fc00:2::ff/128"}, Avoid: true, Auto: true}})
			pair := []string{"fc00:2::ff", "10.0.0.255"}
			if r.Intn(3) == 0 {
				pair = []string{"10.0.0.255", "fc00:2::ff"}
			}
			doPut("ns2/c", gSpec{LB: true, Fam: "dual", ClusterOK: true, Pol: "require", First6: r.Intn(2) == 0, Ports: []int{2}, WantKind: "annot", WantIPs: pair})
			if drain() {
				checkQuiescent()
			}
			out.Stat("directed_buggy_half_of_requested_pair_scenarios", 1)
		}
	} else {
		doPools(gGenPools(r))
	}
	nev := 12 + r.Intn(25)
	for k := 0; k < nev; k++ {
		x := r.Intn(100)
		name := gSvcNames[r.Intn(len(gSvcNames))]
		switch {
		case x < 28:
			var held []string
			for _, nm := range w.existing() {
				if nm != name {
					for _, x := range gStatusIPs(w.get(nm)) {
						held = append(held, x.String())
					}
				}
			}
			sp := gGenSpec(r, w.pools, held)
			if old, ok := w.specs[name]; ok && r.Intn(3) > 0 {
				// small edit of the existing spec
				sp2 := old
				switch r.Intn(6) {
				case 0:
					sp2.Ports = sp.Ports
				case 1:
					sp2.Sharing = sp.Sharing
				case 2:
					sp2.WantKind, sp2.WantIPs = sp.WantKind, sp.WantIPs
				case 3:
					sp2.WantPool, sp2.DeprPool = sp.WantPool, sp.DeprPool
				case 4:
					sp2.LB = !sp2.LB
				default:
					sp2.Local, sp2.Selector = sp.Local, sp.Selector
				}
				sp = sp2
			}
			doPut(name, sp)
		case x < 34:
			if r.Intn(3) == 0 {
				doTerminate(name)
			} else {
				doDel(name)
			}
		case x < 42:
			np := gGenPools(r)
			if r.Intn(3) == 0 && len(w.pools) > 0 { // same names and ranges, one attribute of one pool edited
				np = nil
				for _, p := range w.pools {
					q := p
					q.CIDRs = append([]string{}, p.CIDRs...)
					np = append(np, q)
				}
				i := r.Intn(len(np))
				switch r.Intn(3) {
				case 0:
					np[i].Avoid = !np[i].Avoid
				case 1:
					np[i].Auto = !np[i].Auto
				default:
					if np[i].Pin == nil {
						np[i].Pin = &gPin{Prio: r.Intn(3), Nss: []string{gNss[r.Intn(2)]}}
					} else {
						np[i].Pin = nil
					}
				}
				out.Stat("ev_pools_attribute_only", 1)
			} else if r.Intn(2) == 0 && len(w.pools) > 0 { // rename / regroup
				np = append([]gPool{}, w.pools...)
				perm := r.Perm(len(gPoolNames))
				for i := range np {
					np[i].Name = gPoolNames[perm[i]]
				}
				sort.Slice(np, func(i, j int) bool { return np[i].Name < np[j].Name })
			}
			doPools(np)
		case x < 70:
			if q := pendingNames(); len(q) > 0 {
				doSvc(q[r.Intn(len(q))], r.Intn(3) == 0)
			}
		case x < 82:
			if w.reload {
				fi := -1
				if r.Intn(2) == 0 {
					fi = r.Intn(4)
				}
				doReload(fi)
			}
		case x < 88:
			doCrash()
			// early events before the configuration arrives
			for j := 0; j < r.Intn(3); j++ {
				if q := pendingNames(); len(q) > 0 {
					doSvc(q[r.Intn(len(q))], false)
				}
			}
			doPools(w.pools)
		default:
			if drain() {
				checkQuiescent()
			}
		}
	}
	if drain() {
		checkQuiescent()
	} else {
		out.Stat("no_quiescence_reached", 1)
		fail("ctrl-does-not-settle", "pending work remains after 60 deliveries without new events")
	}

	var rk []string
	var keys []string
	for k := range ranks {
		keys = append(keys, k)
	}
	sort.Strings(keys)
	for i, k := range keys {
		rk = append(rk, cPair(cIP(ranks[k]), cNi(i+1)))
	}
	var univ []string
	for _, s := range gSvcNames {
		univ = append(univ, cNi(gNum(gNsvc, s)))
	}
	out.Case(id, "history", cCtor("Build_ccase", cNi(id), cList(rk), cList(univ), cList(events)), human)
}

// may the service hold x given everybody else's statuses? second result: x is held by somebody
var oStrictSharing bool // mixed Local/Cluster pairs never share (what a single backend key can express)
var oCodeSharing bool   // sharing as the implementation's backend key decides it (F7: Local + empty selector = Cluster)

func oBackendKeyLike(sp gSpec) string {
	if sp.Local {
		return fmt.Sprint(sp.Selector)
	}
	return fmt.Sprint(map[string]string(nil))
}
func oShareableCode(a, b gSpec) bool {
	if a.Sharing == "" || a.Sharing != b.Sharing {
		return false
	}
	for _, x := range a.Ports {
		for _, y := range b.Ports {
			if x == y {
				return false
			}
		}
	}
	ka, kb := oBackendKeyLike(a), oBackendKeyLike(b)
	if len(a.Selector) == 0 {
		ka = fmt.Sprint(map[string]string(nil))
	}
	if len(b.Selector) == 0 {
		kb = fmt.Sprint(map[string]string(nil))
	}
	return ka == kb
}

func oFreeFor(name string, sp gSpec, x net.IP, cur map[string]hSnap) (bool, bool) {
	held := false
	for t, sn := range cur {
		if t == name {
			continue
		}
		for _, y := range sn.ips {
			if y.Equal(x) {
				held = true
				if oCodeSharing {
					if !oShareableCode(sn.spec, sp) {
						return false, true
					}
				} else if !oShareable(sn.spec, sp) || (oStrictSharing && sn.spec.Local != sp.Local) {
					return false, true
				}
			}
		}
	}
	return true, held
}

// search an admissible holding for a pending service (brute force over the small
// pools); onlyShared: every admissible candidate involves an address somebody holds
func oFindAdmissible(pools []gPool, name string, sp gSpec, cur map[string]hSnap) ([]net.IP, bool, bool) {
	if !sp.LB || !sp.ClusterOK || (sp.Pol == "require" && sp.Fam != "dual") {
		return nil, false, false
	}
	want, inv := gParsedWant(sp)
	if inv {
		return nil, false, false
	}
	if len(want) > 0 {
		if !oAdmissible(pools, name, sp, want) {
			return nil, false, false
		}
		shared := false
		for _, x := range want {
			ok, held := oFreeFor(name, sp, x, cur)
			if !ok {
				return nil, false, false
			}
			shared = shared || held
		}
		return want, shared, true
	}
	var best []net.IP
	found, foundFree := false, false
	for _, p := range pools {
		if sp.WantPool != "" {
			if p.Name != sp.WantPool {
				continue
			}
		} else if !p.Auto || !(oPinnedTo(p, name[:3], sp.Labels) || p.Pin == nil) {
			continue
		}
		if !oCompatible(p, name[:3], sp.Labels) {
			continue
		}
		pick := func(v4 bool) (net.IP, net.IP) { // a free address, a shareable one
			var fr, sh net.IP
			for _, x := range gPoolAddrs(p, v4, false) {
				ok, held := oFreeFor(name, sp, x, cur)
				if ok && !held && fr == nil {
					fr = x
				}
				if ok && held && sh == nil {
					sh = x
				}
			}
			return fr, sh
		}
		f4, s4 := pick(true)
		f6, s6 := pick(false)
		any4, any6 := f4 != nil || s4 != nil, f6 != nil || s6 != nil
		one := func(f, s net.IP) net.IP {
			if f != nil {
				return f
			}
			return s
		}
		var cand []net.IP
		free := false
		switch sp.Fam {
		case "ipv4":
			if any4 {
				cand, free = []net.IP{one(f4, s4)}, f4 != nil
			}
		case "ipv6":
			if any6 {
				cand, free = []net.IP{one(f6, s6)}, f6 != nil
			}
		default:
			if sp.Pol == "require" {
				if any4 && any6 {
					cand, free = []net.IP{one(f4, s4), one(f6, s6)}, f4 != nil && f6 != nil
				}
			} else if sp.Pol == "prefer" {
				if any4 {
					cand, free = []net.IP{one(f4, s4)}, f4 != nil
				} else if any6 {
					cand, free = []net.IP{one(f6, s6)}, f6 != nil
				}
				if !free && f6 != nil && any6 {
					cand, free = []net.IP{f6}, true
				}
			}
		}
		if cand != nil {
			found = true
			if best == nil || (free && !foundFree) {
				best = cand
			}
			foundFree = foundFree || free
		}
	}
	return best, found && !foundFree, found
}
