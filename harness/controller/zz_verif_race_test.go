//go:build verif

package main

// Runtime part of C20 for the controller: service and pool events are delivered
// from several goroutines through the REAL k8s.Listener wrappers (or straight to
// the callback when VERIF_RAW_HANDLERS names it, the way internal/k8s/k8s.go
// would deliver them had it registered the callback instead of the wrapper)
// while other goroutines call Allocator.CountersForPool and consume the result
// as PoolStatusReconciler does.  Run under `go test -race`.  The acquisition
// order is recorded inside the critical section; the same events are then
// replayed one at a time in that order on a fresh controller and the final
// assignments and pool counters are compared.

import (
	"fmt"
	"math/rand"
	"net"
	"os"
	"sort"
	"strings"
	"sync"
	"sync/atomic"
	"testing"

	"github.com/go-kit/log"
	v1 "k8s.io/api/core/v1"
	discovery "k8s.io/api/discovery/v1"
	metav1 "k8s.io/apimachinery/pkg/apis/meta/v1"
	"k8s.io/apimachinery/pkg/util/intstr"

	"go.universe.tf/metallb/internal/allocator"
	"go.universe.tf/metallb/internal/config"
	"go.universe.tf/metallb/internal/k8s"
	"go.universe.tf/metallb/internal/k8s/controllers"
)

// the API server as far as the controller is concerned: remembers the status last written per service
type vrClient struct {
	mu     *sync.Mutex
	status map[string]v1.ServiceStatus
}

func vrNewClient() vrClient { return vrClient{mu: &sync.Mutex{}, status: map[string]v1.ServiceStatus{}} }

func (c vrClient) UpdateStatus(svc *v1.Service) error {
	c.mu.Lock()
	c.status[svc.Namespace+"/"+svc.Name] = *svc.Status.DeepCopy()
	c.mu.Unlock()
	return nil
}

func (c vrClient) last(name string) (v1.ServiceStatus, bool) {
	c.mu.Lock()
	defer c.mu.Unlock()
	st, ok := c.status[name]
	return st, ok
}
func (vrClient) Infof(*v1.Service, string, string, ...interface{})  {}
func (vrClient) Errorf(*v1.Service, string, string, ...interface{}) {}

type vrEvent struct {
	ID    int
	Kind  string // service | pools
	What  string
	name  string
	svc   *v1.Service
	eps   []discovery.EndpointSlice
	pools *config.Pools
}

var vrSvcNames = []string{"ns/a", "ns/b", "ns/c", "other/d", "other/e", "ns/f"}
var vrPoolNames = []string{"pool1", "pool2", "pool3"}

func vrIPNet(s string) *net.IPNet {
	_, n, err := net.ParseCIDR(s)
	if err != nil {
		panic(err)
	}
	return n
}

// Only pool3 is auto-assignable: which pool an unpinned service draws from is
// then determined (Allocate collects the candidate pools by ranging over a map;
// with several candidates the choice would depend on Go's map order and the
// serial replay could not be compared address by address).
func vrPools(variant int) *config.Pools {
	m := map[string]*config.Pool{
		"pool1": {Name: "pool1", AutoAssign: false, CIDR: []*net.IPNet{vrIPNet("10.20.30.0/30")}},
	}
	if variant%2 == 0 {
		m["pool2"] = &config.Pool{Name: "pool2", AutoAssign: false, CIDR: []*net.IPNet{vrIPNet("10.20.40.0/31"), vrIPNet("fc00:40::/126")}}
	}
	if variant%3 != 0 {
		m["pool3"] = &config.Pool{Name: "pool3", AutoAssign: true, CIDR: []*net.IPNet{vrIPNet("10.20.50.8/30")}}
	}
	return &config.Pools{ByName: m}
}

func vrService(i int, r *rand.Rand) *v1.Service {
	parts := strings.Split(vrSvcNames[i], "/")
	svc := &v1.Service{
		ObjectMeta: metav1.ObjectMeta{Namespace: parts[0], Name: parts[1], Annotations: map[string]string{}},
		Spec: v1.ServiceSpec{
			Type:       "LoadBalancer",
			ClusterIPs: []string{"1.2.3.4"},
			Ports:      []v1.ServicePort{{Protocol: v1.ProtocolTCP, Port: int32(80 + i%2), TargetPort: intstr.FromInt(8080)}},
		},
	}
	if r.Intn(3) == 0 { // ports change between deliveries
		svc.Spec.Ports[0].Port = []int32{80, 81, 443}[r.Intn(3)]
	}
	switch r.Intn(8) {
	case 6, 7: // PreferDualStack on the dual-stack pool: a second family is added to an existing allocation
		pol := v1.IPFamilyPolicyPreferDualStack
		svc.Spec.IPFamilyPolicy = &pol
		svc.Spec.ClusterIPs = []string{"1.2.3.4", "fc00:1::4"}
		svc.Spec.IPFamilies = []v1.IPFamily{v1.IPv4Protocol, v1.IPv6Protocol}
		svc.Annotations["metallb.io/address-pool"] = "pool2"
	case 0:
		svc.Annotations["metallb.io/address-pool"] = vrPoolNames[r.Intn(len(vrPoolNames))]
	case 1:
		svc.Annotations["metallb.io/loadBalancerIPs"] = []string{"10.20.30.1", "10.20.40.1", "10.20.50.9"}[r.Intn(3)]
	case 2:
		svc.Annotations["metallb.io/allow-shared-ip"] = []string{"k", "k", "k2"}[r.Intn(3)] // the sharing key changes now and then
		svc.Annotations["metallb.io/loadBalancerIPs"] = "10.20.30.2"
	}
	return svc
}

func vrEvents(seed int64, n int) []vrEvent {
	r := rand.New(rand.NewSource(seed))
	var evs []vrEvent
	add := func(e vrEvent) {
		e.ID = len(evs)
		if e.Kind == "service" { // the controller ignores the endpoint slices; carry the event id there
			e.eps = []discovery.EndpointSlice{{ObjectMeta: metav1.ObjectMeta{Name: fmt.Sprint(e.ID)}}}
		}
		evs = append(evs, e)
	}
	add(vrEvent{Kind: "pools", What: "pools 1", pools: vrPools(1)})
	for len(evs) < n {
		switch x := r.Intn(20); {
		case x < 3:
			v := r.Intn(6)
			add(vrEvent{Kind: "pools", What: fmt.Sprintf("pools %d", v), pools: vrPools(v)})
		case x < 8:
			i := r.Intn(len(vrSvcNames))
			add(vrEvent{Kind: "service", What: "delete " + vrSvcNames[i], name: vrSvcNames[i]})
		default:
			i := r.Intn(len(vrSvcNames))
			svc := vrService(i, r)
			add(vrEvent{Kind: "service", What: fmt.Sprintf("set %s %v", vrSvcNames[i], svc.Annotations), name: vrSvcNames[i], svc: svc})
		}
	}
	return evs
}

type vrSystem struct {
	eager  func(string) // when set: the pool status event is handed over synchronously (TestVerifNotifyController)
	c      *controller
	lst    *k8s.Listener
	poolID map[*config.Pools]int
	mu     sync.Mutex
	order  []int
	evts   chan string // pool names whose counters changed (the real callback feeds PoolStatusReconciler)
}

func (s *vrSystem) note(id int) {
	s.mu.Lock()
	s.order = append(s.order, id)
	s.mu.Unlock()
}

func vrAtoi(x string) int {
	n := 0
	fmt.Sscan(x, &n)
	return n
}

func vrNewSystem(evs []vrEvent) *vrSystem {
	s := &vrSystem{poolID: map[*config.Pools]int{}, evts: make(chan string, 1<<14)}
	for _, e := range evs {
		if e.Kind == "pools" {
			s.poolID[e.pools] = e.ID
		}
	}
	c := &controller{
		client: vrNewClient(),
		ips: allocator.New(func(name string) {
			if s.eager != nil {
				s.eager(name)
				return
			}
			select {
			case s.evts <- name:
			default:
			}
		}),
	}
	s.c = c
	// the callbacks controller/main.go installs, each noting its event id first
	s.lst = &k8s.Listener{
		ServiceChanged: func(l log.Logger, name string, svc *v1.Service, eps []discovery.EndpointSlice) controllers.SyncState {
			s.note(vrAtoi(eps[0].Name))
			return c.SetBalancer(l, name, svc, eps)
		},
		PoolChanged: func(l log.Logger, p *config.Pools) controllers.SyncState {
			s.note(s.poolID[p])
			return c.SetPools(l, p)
		},
	}
	return s
}

func (s *vrSystem) deliver(e vrEvent, raw map[string]bool) {
	l := log.NewNopLogger()
	switch e.Kind {
	case "service":
		if raw["ServiceChanged"] {
			s.lst.ServiceChanged(l, e.name, e.svc, e.eps)
		} else {
			s.lst.ServiceHandler(l, e.name, e.svc, e.eps)
		}
	case "pools":
		if raw["PoolChanged"] {
			s.lst.PoolChanged(l, e.pools)
		} else {
			s.lst.PoolHandler(l, e.pools)
		}
	}
}

// what PoolStatusReconciler.Reconcile does with the fetcher's result
func vrConsume(fetch controllers.PoolCountersFetcher, pool string) int64 {
	c := fetch(pool)
	return c.AssignedIPv4 + c.AssignedIPv6 + c.AvailableIPv4 + c.AvailableIPv6
}

func (s *vrSystem) state() map[string]string {
	st := map[string]string{}
	for _, name := range vrSvcNames {
		var ips []string
		for _, ip := range s.c.ips.IPs(name) {
			ips = append(ips, ip.String())
		}
		st["svc "+name] = fmt.Sprintf("pool=%s ips=%v", s.c.ips.Pool(name), ips)
	}
	for _, p := range vrPoolNames {
		st["counters "+p] = fmt.Sprintf("%+v", s.c.ips.CountersForPool(p))
	}
	return st
}

func vrRaw() map[string]bool {
	raw := map[string]bool{}
	for _, k := range strings.Split(os.Getenv("VERIF_RAW_HANDLERS"), ",") {
		if k != "" {
			raw[k] = true
		}
	}
	return raw
}

func TestVerifRaceController(t *testing.T) {
	out := vOpen()
	defer out.Close()
	r := vRand()
	rounds := vN(3)
	raw := vrRaw()
	for round := 0; round < rounds; round++ {
		vrRound(out, r.Int63(), round, raw)
	}
}

func vrRound(out *vOut, seed int64, round int, raw map[string]bool) {
	nev := 300
	if vThorough() {
		nev = 1500
	}
	workers := 4 + int(seed%5)
	evs := vrEvents(seed, nev)
	sys := vrNewSystem(evs)
	var stop atomic.Bool
	var qwg, wg sync.WaitGroup
	var consumed atomic.Int64
	for q := 0; q < 3; q++ {
		qwg.Add(1)
		go func(q int) {
			defer qwg.Done()
			k := 0
			for !stop.Load() {
				select {
				case p := <-sys.evts:
					consumed.Add(1 + vrConsume(sys.c.ips.CountersForPool, p)%2)
				default:
					consumed.Add(1 + vrConsume(sys.c.ips.CountersForPool, vrPoolNames[(k+q)%len(vrPoolNames)])%2)
					k++
				}
			}
		}(q)
	}
	sys.deliver(evs[0], raw)
	rest := evs[1:]
	for w := 0; w < workers; w++ {
		wg.Add(1)
		go func(w int) {
			defer wg.Done()
			for i := w; i < len(rest); i += workers {
				sys.deliver(rest[i], raw)
			}
		}(w)
	}
	wg.Wait()
	stop.Store(true)
	qwg.Wait()
	got := sys.state()
	order := append([]int{}, sys.order...)
	out.Stat("controller_events", len(order))
	out.Stat("controller_fetches_consumed", int(consumed.Load()))
	if len(order) != len(evs) {
		out.Fail("c20-controller-lost-event", fmt.Sprintf("%d events delivered, %d took effect", len(evs), len(order)), map[string]any{"seed": seed})
		return
	}
	evs2 := vrEvents(seed, nev)
	ser := vrNewSystem(evs2)
	for _, id := range order {
		ser.deliver(evs2[id], nil)
	}
	want := ser.state()
	var diffs []string
	for k, v := range want {
		if got[k] != v {
			diffs = append(diffs, fmt.Sprintf("%s: concurrent %q, serial %q", k, got[k], v))
		}
	}
	assigned := 0
	for k, v := range got {
		if strings.HasPrefix(k, "svc ") && !strings.HasSuffix(v, "ips=[]") {
			assigned++
		}
	}
	out.Stat("controller_final_assigned_services", assigned)
	if len(diffs) > 0 {
		sort.Strings(diffs)
		var sched []string
		for _, id := range order {
			sched = append(sched, fmt.Sprintf("%d:%s", id, evs[id].What))
		}
		out.Fail("c20-controller-serial-divergence",
			fmt.Sprintf("allocator state after concurrent delivery differs from the serial replay in lock-acquisition order: %s", strings.Join(diffs, " | ")),
			map[string]any{"seed": seed, "workers": workers, "raw_handlers": os.Getenv("VERIF_RAW_HANDLERS"), "schedule": sched})
	}
	out.Case(round, "controller-round", "tt", map[string]any{"seed": seed, "workers": workers, "events": len(evs), "state": got})
}

// ---------------------------------------------------------------- notifications vs. state (eager pool status reconciler)

// TestVerifNotifyController: the allocator tells the PoolStatusReconciler that a pool's counters
// changed through countersChangedCallback (controller/main.go: a send on the unbuffered
// poolStatusChan).  The consumer here is EAGER: it runs at once, before the handler goes on,
// queries the real fetcher CountersForPool (countersMutex only) and remembers the LAST value it
// published.  Events: first allocations, resync of an allocated service (re-assign in the same
// pool), changed ports / sharing key, a second family for PreferDualStack, explicit addresses,
// moves between pools, withdrawals, pool changes — through the real Listener wrappers.  After every
// handler the last published counters of every pool must be the counters the handlers left.
func TestVerifNotifyController(t *testing.T) {
	out := vOpen()
	defer out.Close()
	r := vRand()
	rounds := vN(3)
	for round := 0; round < rounds; round++ {
		seed := r.Int63()
		nev := 300
		if vThorough() {
			nev = 2500
		}
		evs := vrEvents(seed, nev)
		sys := vrNewSystem(evs)
		type pevt struct {
			pool string
			done chan struct{}
		}
		ch := make(chan pevt) // unbuffered, as poolStatusChan
		stop := make(chan struct{})
		var mu sync.Mutex
		pub := map[string]allocator.PoolCounters{}
		go func() {
			for {
				select {
				case <-stop:
					return
				case e := <-ch:
					c := sys.c.ips.CountersForPool(e.pool)
					mu.Lock()
					pub[e.pool] = c
					mu.Unlock()
					close(e.done)
				}
			}
		}()
		sys.eager = func(pool string) {
			e := pevt{pool, make(chan struct{})}
			ch <- e
			<-e.done // the reconciler wins the race with the rest of the handler
		}
		var sched []string
		bad := false
		for _, e := range evs {
			before := map[string]string{}
			for _, n := range vrSvcNames {
				before[n] = sys.c.ips.Pool(n)
			}
			// a resync: the service comes back with the status the controller wrote last (2 out of 3 times)
			resync := false
			if e.Kind == "service" && e.svc != nil && r.Intn(3) > 0 {
				if st, ok := sys.c.client.(vrClient).last(e.name); ok && len(st.LoadBalancer.Ingress) > 0 {
					cp := e.svc.DeepCopy()
					cp.Status = *st.DeepCopy()
					e.svc = cp
					e.What += " (with the status written last)"
					resync = true
				}
			}
			sys.deliver(e, nil)
			sched = append(sched, fmt.Sprintf("%d:%s", e.ID, e.What))
			out.Stat("notify_controller_events", 1)
			if resync && before[e.name] != "" && sys.c.ips.Pool(e.name) == before[e.name] {
				out.Stat("notify_controller_reassign_same_pool", 1)
			}
			for _, p := range vrPoolNames {
				now := sys.c.ips.CountersForPool(p)
				mu.Lock()
				got := pub[p]
				mu.Unlock()
				if now != got && !bad {
					bad = true
					out.Fail("c20-status-stale-pool", fmt.Sprintf("after %q (no status event pending) the last published counters of %s are %+v but the allocator's counters are %+v: the counters-changed notification was sent before the final counters were in place, or not at all", e.What, p, got, now),
						map[string]any{"seed": seed, "schedule": sched, "how": "./check C20 (TestVerifNotifyController: eager consumer on the counters-changed callback)"})
				} else if now.AssignedIPv4+now.AssignedIPv6 > 0 {
					out.Stat("notify_controller_assigned_checks", 1)
				}
			}
			if bad {
				break
			}
		}
		close(stop)
		out.Case(round, "notify-controller", "tt", map[string]any{"seed": seed, "events": len(evs)})
	}
}
