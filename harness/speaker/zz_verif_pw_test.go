//go:build verif

package main

// Harness for C15 (password / secret reference): exhaustive enumeration of the
// REAL passwordForSession over password, secret password, secret reference, BGP
// implementation and secret handling; panic = None.  Owned by the frr group.

import (
	"fmt"
	"testing"

	v1 "k8s.io/api/core/v1"

	"go.universe.tf/metallb/internal/config"
)

func TestVerifPw(t *testing.T) {
	out := vOpen()
	defer out.Close()
	id := 5000
	impls := []bgpImplementation{bgpNative, bgpFrr, bgpFrrK8s, bgpImplementation("other")}
	implCoq := []string{"BgpNative", "BgpFrr", "BgpFrrK8s", "BgpOther"}
	for _, pw := range []string{"", "plain"} {
		for _, spw := range []string{"", "from-secret"} {
			for _, ref := range []v1.SecretReference{{}, {Name: "bgp-secret", Namespace: "metallb-system"}} {
				for ti, impl := range impls {
					for hi, h := range []SecretHandling{SecretPassThrough, SecretConvert} {
						id++
						peer := &config.Peer{Name: "p", Password: pw, SecretPassword: spw, PasswordRef: ref}
						var gotPw string
						var gotRef v1.SecretReference
						panicked := false
						func() {
							defer func() {
								if recover() != nil {
									panicked = true
								}
							}()
							gotPw, gotRef = passwordForSession(peer, impl, h)
						}()
						obs := cNone
						if !panicked {
							obs = cSome(cPair(vPwStr(gotPw), cPair(vPwStr(gotRef.Name), vPwStr(gotRef.Namespace))))
						}
						term := cCtor("KPw", cNi(id), cCtor("mk_peer_pw", vPwStr(pw), vPwStr(spw), cPair(vPwStr(ref.Name), vPwStr(ref.Namespace))),
							implCoq[ti], []string{"SecretPassThrough", "SecretConvert"}[hi], obs)
						out.Case(id, "passwordForSession", term, map[string]any{"password": pw, "secret_password": spw, "ref": ref.Name,
							"impl": string(impl), "handling": hi, "panicked": panicked, "got_password": gotPw, "got_ref": gotRef.Name})
						out.Stat("pw_cases", 1)
						// the property: never both a password and a secret reference
						if !panicked && gotPw != "" && (gotRef.Name != "" || gotRef.Namespace != "") && !(pw != "" && ref.Name != "") {
							out.Fail("k8s-password-and-secret", fmt.Sprintf("passwordForSession returns both a password and a secret reference for password=%q secretPassword=%q ref=%q impl=%s handling=%d", pw, spw, ref.Name, impl, hi), nil)
						}
					}
				}
			}
		}
	}
}

func vPwStr(s string) string { return "\"" + s + "\"" }
