//go:build verif

package main

// TestVerifSpkStack: the REAL reconcilers of internal/k8s/controllers on a controller-runtime fake
// API server in front of the REAL speaker controller:
//   ServiceReconciler (speaker mode, Endpoints=true: single-service path AND reprocessAll path),
//   NodeReconciler, ConfigReconciler (CRs -> config.Config through the real toConfig),
//   ServiceBGPStatusReconciler (fed by the controller's ads-changed notifications).
// Histories of CLUSTER OBJECT changes (Services and EndpointSlices in two namespaces with the same
// Service name, Node labels / conditions, IPAddressPool / BGPAdvertisement / L2Advertisement /
// BGPPeer resources); every change is delivered as the watches of SetupWithManager would
// (Node events reach the node reconciler AND the config reconciler), reload requests are drained.
// At quiescence:
//   (1) the handler calls the reconcilers made are replayed on Model/Speaker.v (existing projection);
//   (2) a fresh stack on the same final objects must announce the same (C09);
//   (3) routes on the sessions == routes of the Services eligible by the statement, computed from the
//       CURRENT objects: node labels vs the advertisements' node selectors, conditions, the endpoint
//       slices of THAT namespace/name (C10, C05);
//   (4) the stored ServiceBGPStatus == peers whose session holds a prefix of the Service (C05).

import (
	"context"
	"crypto/sha256"
	"encoding/json"
	"fmt"
	"math/rand"
	"net"
	"os"
	"sort"
	"strings"
	"testing"

	"github.com/davecgh/go-spew/spew"
	"github.com/go-kit/log"
	v1 "k8s.io/api/core/v1"
	discovery "k8s.io/api/discovery/v1"
	metav1 "k8s.io/apimachinery/pkg/apis/meta/v1"
	"k8s.io/apimachinery/pkg/runtime"
	"k8s.io/apimachinery/pkg/types"
	"sigs.k8s.io/controller-runtime/pkg/client"
	"sigs.k8s.io/controller-runtime/pkg/client/fake"
	"sigs.k8s.io/controller-runtime/pkg/event"
	"sigs.k8s.io/controller-runtime/pkg/reconcile"

	metallbv1beta1 "go.universe.tf/metallb/api/v1beta1"
	metallbv1beta2 "go.universe.tf/metallb/api/v1beta2"
	"go.universe.tf/metallb/internal/config"
	"go.universe.tf/metallb/internal/k8s/controllers"
	"go.universe.tf/metallb/internal/k8s/epslices"
)

const vkNS = "metallb-system"

var vkSvcKeys = []string{"ns0/web", "ns1/web", "ns0/api", "ns1/s3"}

// a BGP advertisement of the stack: either an explicit node set or a label selector on the nodes
type vkAdv struct {
	vbBAdv
	Sel [][2]int `json:"sel,omitempty"` // nil: Nodes is explicit; else Nodes = nodes whose CURRENT labels carry all pairs
}
type vkPool struct {
	CIDRs []string  `json:"cidrs"`
	BGP   []vkAdv   `json:"bgp"`
	L2    []vsL2Adv `json:"l2"`
}
type vkCfg struct {
	Pools []vkPool `json:"pools"`
	Peers []vbPeer `json:"peers"`
}
type vkEv struct {
	Op   string  `json:"op"` // svc del eps node cfg resync
	Name int     `json:"name,omitempty"`
	Svc  *vsSvc  `json:"svc,omitempty"`
	Node *vsNode `json:"node,omitempty"`
	Cfg  *vkCfg  `json:"cfg,omitempty"`
}

type vkStack struct {
	nodeDropped int // node updates the real NodeReconcilerPredicate filtered out
	fc      client.Client
	k       *vsCtl
	svcRec  *controllers.ServiceReconciler
	nodeRec *controllers.NodeReconciler
	cfgRec  *controllers.ConfigReconciler
	bgpRec  *controllers.ServiceBGPStatusReconciler
	reload  chan event.GenericEvent
	changed map[string]bool
	calls   []vsEv // the handler calls made by the reconcilers, in harness terms (for the model)
	// the work queue: a request whose Reconcile returned an error is served again after later events; one that returned nil is not
	pendingCfg *reconcile.Request
	// the *config.Config the config reconciler handed to SetConfig (it keeps the same object as its memo) and its deep dump at that time
	cfgObj      *config.Config
	cfgDump     string
	cfgCalls    int    // SetConfig calls during the current event
	cfgAccepted string // harness-level effective configuration at the last ACCEPTED SetConfig call
	truth   *vkTruth
}

// the cluster as the harness knows it (statement side)
type vkTruth struct {
	K     map[int]*vsSvc
	nodes map[int]*vsNode
	cfg   *vkCfg
}

func vkScheme() *runtime.Scheme {
	sch := runtime.NewScheme()
	for _, f := range []func(*runtime.Scheme) error{metallbv1beta1.AddToScheme, metallbv1beta2.AddToScheme, v1.AddToScheme, discovery.AddToScheme} {
		if err := f(sch); err != nil {
			panic(err)
		}
	}
	return sch
}

func vkNodeSel(nodes []int) []metav1.LabelSelector {
	if len(nodes) == 3 {
		return nil // no selector: every node
	}
	if len(nodes) == 0 {
		return []metav1.LabelSelector{{MatchLabels: map[string]string{"verif/none": "x"}}}
	}
	var vals []string
	for _, i := range nodes {
		vals = append(vals, vbNodeNames[i])
	}
	return []metav1.LabelSelector{{MatchExpressions: []metav1.LabelSelectorRequirement{{Key: "kubernetes.io/hostname", Operator: metav1.LabelSelectorOpIn, Values: vals}}}}
}

// the nodes an advertisement selects, from the CURRENT node labels (statement side)
func vkAdvNodes(a vkAdv, nodes map[int]*vsNode) []int {
	if a.Sel == nil {
		return a.Nodes
	}
	r := []int{}
	for i := 0; i < 3; i++ {
		if nd := nodes[i]; nd != nil && vbSelMatches(a.Sel, nd.Labels) {
			r = append(r, i)
		}
	}
	return r
}

// the harness-level configuration the CRs denote under the current node labels
func vkEffective(c *vkCfg, nodes map[int]*vsNode) *vsCfg {
	if c == nil {
		return &vsCfg{} // no metallb resource yet: the config reconciler still hands an (empty) configuration over
	}
	e := &vsCfg{Peers: c.Peers}
	for _, pl := range c.Pools {
		p := vsPool{CIDRs: pl.CIDRs, L2: pl.L2}
		for _, a := range pl.BGP {
			b := a.vbBAdv
			b.Nodes = vkAdvNodes(a, nodes)
			b.NodeFalse = []int{}
			p.BGP = append(p.BGP, b)
		}
		e.Pools = append(e.Pools, p)
	}
	return e
}

func vkCfgObjects(c *vkCfg) []client.Object {
	var objs []client.Object
	for pi, pl := range c.Pools {
		pn := fmt.Sprintf("pool%d", pi)
		objs = append(objs, &metallbv1beta1.IPAddressPool{ObjectMeta: metav1.ObjectMeta{Name: pn, Namespace: vkNS},
			Spec: metallbv1beta1.IPAddressPoolSpec{Addresses: pl.CIDRs}})
		for ai, a := range pl.BGP {
			l4, l6 := int32(a.Agg4), int32(a.Agg6)
			adv := &metallbv1beta1.BGPAdvertisement{ObjectMeta: metav1.ObjectMeta{Name: fmt.Sprintf("%s-bgp%d", pn, ai), Namespace: vkNS},
				Spec: metallbv1beta1.BGPAdvertisementSpec{AggregationLength: &l4, AggregationLengthV6: &l6, LocalPref: uint32(a.LP), IPAddressPools: []string{pn}}}
			for _, cidx := range a.Comms {
				adv.Spec.Communities = append(adv.Spec.Communities, vbComms[cidx])
			}
			for _, p := range a.Peers {
				adv.Spec.Peers = append(adv.Spec.Peers, vbPeerName(p))
			}
			if a.Sel != nil {
				adv.Spec.NodeSelectors = []metav1.LabelSelector{{MatchLabels: vbLabelSet(a.Sel)}}
			} else {
				adv.Spec.NodeSelectors = vkNodeSel(a.Nodes)
			}
			objs = append(objs, adv)
		}
		for ai, a := range pl.L2 {
			adv := &metallbv1beta1.L2Advertisement{ObjectMeta: metav1.ObjectMeta{Name: fmt.Sprintf("%s-l2%d", pn, ai), Namespace: vkNS},
				Spec: metallbv1beta1.L2AdvertisementSpec{IPAddressPools: []string{pn}, NodeSelectors: vkNodeSel(a.Nodes)}}
			if !a.All {
				for _, i := range a.Ifs {
					adv.Spec.Interfaces = append(adv.Spec.Interfaces, vsIfNames[i])
				}
			}
			objs = append(objs, adv)
		}
	}
	for _, p := range c.Peers {
		peer := &metallbv1beta2.BGPPeer{ObjectMeta: metav1.ObjectMeta{Name: vbPeerName(p.Name), Namespace: vkNS},
			Spec: metallbv1beta2.BGPPeerSpec{MyASN: 64512, ASN: uint32(64512 + p.Attr), Address: fmt.Sprintf("10.9.0.%d", p.Name+1)}}
		for _, s := range p.Sels {
			peer.Spec.NodeSelectors = append(peer.Spec.NodeSelectors, metav1.LabelSelector{MatchLabels: vbLabelSet(s)})
		}
		objs = append(objs, peer)
	}
	return objs
}

func vkNodeObject(n *vsNode) *v1.Node {
	o := vsBuildNode(n)
	o.Labels["kubernetes.io/hostname"] = o.Name
	return o
}

func vkSvcObjects(idx int, s *vsSvc) (*v1.Service, []client.Object) {
	parts := strings.SplitN(vkSvcKeys[idx], "/", 2)
	svc := vsBuildSvc(idx, s)
	svc.Namespace, svc.Name = parts[0], parts[1]
	var sl []client.Object
	for i, es := range vbBuildEps(vbLayout{Eps: s.Eps}) {
		es := es
		es.Namespace, es.Name = parts[0], fmt.Sprintf("%s-slice%d", parts[1], i)
		es.Labels = map[string]string{discovery.LabelServiceName: parts[1]}
		es.AddressType = discovery.AddressTypeIPv4
		sl = append(sl, &es)
	}
	return svc, sl
}

func vkNewStack(ignore bool, sl *vsSL, truth *vkTruth) *vkStack {
	st := &vkStack{changed: map[string]bool{}, reload: make(chan event.GenericEvent, 4096), truth: truth}
	sch := vkScheme()
	st.fc = fake.NewClientBuilder().WithScheme(sch).WithStatusSubresource(&metallbv1beta1.ServiceBGPStatus{}).
		WithIndex(&discovery.EndpointSlice{}, epslices.SlicesServiceIndexName, func(o client.Object) []string {
			res, err := epslices.SlicesServiceIndex(o)
			if err != nil {
				return []string{}
			}
			return res
		}).
		WithIndex(&metallbv1beta1.ServiceBGPStatus{}, "status.serviceName", func(o client.Object) []string {
			l := o.GetLabels()
			return []string{fmt.Sprintf("%s/%s-%s", l[controllers.LabelServiceNamespace], l[controllers.LabelServiceName], l[controllers.LabelAnnounceNode])}
		}).Build()
	vbAdsChanged = func(k string) { st.changed[k] = true }
	st.k = vsNewCtl(ignore, sl)
	forceReload := func() { st.reload <- controllers.NewReloadEvent() }
	lg := log.NewNopLogger()
	st.svcRec = &controllers.ServiceReconciler{Client: st.fc, Logger: lg, Scheme: sch, Namespace: vkNS, Endpoints: true, Reload: st.reload,
		Handler: func(l log.Logger, name string, svc *v1.Service, eps []discovery.EndpointSlice) controllers.SyncState {
			idx := vsSvcIdx(name)
			if svc == nil {
				st.calls = append(st.calls, vsEv{Op: "del", Name: idx})
			} else {
				st.calls = append(st.calls, vsEv{Op: "svc", Name: idx, Svc: st.truth.K[idx]})
			}
			return st.k.c.SetBalancer(l, name, svc, eps)
		}}
	st.nodeRec = &controllers.NodeReconciler{Client: st.fc, Logger: lg, Scheme: sch, NodeName: vbNodeNames[0], Namespace: vkNS, ForceReload: forceReload,
		Handler: func(l log.Logger, n *v1.Node) controllers.SyncState {
			for i, nm := range vbNodeNames {
				if nm == n.Name {
					st.calls = append(st.calls, vsEv{Op: "node", Node: st.truth.nodes[i]})
				}
			}
			res := st.k.c.SetNode(l, n)
			if os.Getenv("VERIF_DEBUG") != "" {
				fmt.Printf("SetNode %s conditions=%v labels=%v -> %v\n", n.Name, n.Status.Conditions, n.Labels, res)
			}
			return res
		}}
	st.cfgRec = &controllers.ConfigReconciler{Client: st.fc, Logger: lg, Scheme: sch, Namespace: vkNS, ValidateConfig: config.DontValidate, ForceReload: forceReload,
		Handler: func(l log.Logger, c *config.Config) controllers.SyncState {
			st.calls = append(st.calls, vsEv{Op: "cfg", Cfg: vkEffective(st.truth.cfg, st.truth.nodes)})
			st.cfgCalls++
			st.cfgObj, st.cfgDump = c, vkDump(c)
			return st.k.c.SetConfig(l, c)
		}}
	pod := &v1.Pod{ObjectMeta: metav1.ObjectMeta{Name: "speaker-x", Namespace: vkNS, UID: "0000-verif"}}
	bc := st.k.c.protocolHandlers[config.BGP].(*bgpController)
	st.bgpRec = &controllers.ServiceBGPStatusReconciler{Client: st.fc, Logger: lg, NodeName: vbNodeNames[0], Namespace: vkNS, SpeakerPod: pod, PeersFetcher: bc.PeersForService}
	return st
}

// a deterministic deep dump (map keys sorted, no pointer addresses): any in-place change of the configuration shows
var vkSpew = spew.ConfigState{Indent: " ", SortKeys: true, DisablePointerAddresses: true, DisableCapacities: true, SpewKeys: true}

func vkDump(c *config.Config) string { return vkSpew.Sdump(c) }

func vkReq(ns, name string) reconcile.Request {
	return reconcile.Request{NamespacedName: types.NamespacedName{Namespace: ns, Name: name}}
}

// reload requests and status notifications, until nothing is pending
func (st *vkStack) drain() {
	ctx := context.TODO()
	for round := 0; round < 20; round++ {
		n := len(st.reload)
		if n > 0 {
			for i := 0; i < n; i++ {
				<-st.reload
			}
			for try := 0; try < 5; try++ {
				if _, err := st.svcRec.Reconcile(ctx, vkReq("metallbreload", "reload")); err == nil {
					break
				}
			}
			continue
		}
		if len(st.changed) == 0 {
			return
		}
		var keys []string
		for k := range st.changed {
			keys = append(keys, k)
		}
		sort.Strings(keys)
		st.changed = map[string]bool{}
		for pass := 0; pass < 2; pass++ {
			for _, k := range keys {
				p := strings.SplitN(k, "/", 2)
				if _, err := st.bgpRec.Reconcile(ctx, vkReq(p[0], p[1])); err != nil {
					panic(err)
				}
			}
		}
	}
	panic("stack does not quiesce")
}

func vkDeleteAll(fc client.Client, obj client.Object, ns string) {
	if err := fc.DeleteAllOf(context.TODO(), obj, client.InNamespace(ns)); err != nil {
		panic(err)
	}
}

// apply a cluster change to the API server and deliver it as the watches would
func (st *vkStack) apply(e vkEv) {
	ctx := context.TODO()
	switch e.Op {
	case "svc", "eps":
		parts := strings.SplitN(vkSvcKeys[e.Name], "/", 2)
		svc, slices := vkSvcObjects(e.Name, e.Svc)
		want := *svc.Status.DeepCopy()
		var old v1.Service
		if err := st.fc.Get(ctx, types.NamespacedName{Namespace: parts[0], Name: parts[1]}, &old); err == nil {
			svc.ResourceVersion = old.ResourceVersion
			if err := st.fc.Update(ctx, svc); err != nil {
				panic(err)
			}
		} else if err := st.fc.Create(ctx, svc); err != nil {
			panic(err)
		}
		// the fake API server keeps status as a subresource of the built-in types
		if err := st.fc.Get(ctx, types.NamespacedName{Namespace: parts[0], Name: parts[1]}, svc); err != nil {
			panic(err)
		}
		svc.Status = want
		if err := st.fc.Status().Update(ctx, svc); err != nil {
			panic(err)
		}
		st.replaceSlices(parts[0], parts[1], slices)
		st.svcRec.Reconcile(ctx, vkReq(parts[0], parts[1]))
	case "del":
		parts := strings.SplitN(vkSvcKeys[e.Name], "/", 2)
		st.fc.Delete(ctx, &v1.Service{ObjectMeta: metav1.ObjectMeta{Namespace: parts[0], Name: parts[1]}})
		st.replaceSlices(parts[0], parts[1], nil)
		st.svcRec.Reconcile(ctx, vkReq(parts[0], parts[1]))
	case "node":
		o := vkNodeObject(e.Node)
		wantSt := *o.Status.DeepCopy()
		var old v1.Node
		existed := false
		if err := st.fc.Get(ctx, types.NamespacedName{Name: o.Name}, &old); err == nil {
			existed = true
			o.ResourceVersion = old.ResourceVersion
			if err := st.fc.Update(ctx, o); err != nil {
				panic(err)
			}
		} else if err := st.fc.Create(ctx, o); err != nil {
			panic(err)
		}
		if err := st.fc.Get(ctx, types.NamespacedName{Name: o.Name}, o); err != nil {
			panic(err)
		}
		o.Status = wantSt
		if err := st.fc.Status().Update(ctx, o); err != nil {
			panic(err)
		}
		// the Node watch of the node reconciler goes through the reconciler's REAL event filter (an update the filter drops
		// never reaches SetNode); the Node watch of the config reconciler
		pass := true
		if existed {
			pass = controllers.NodeReconcilerPredicate().Update(event.UpdateEvent{ObjectOld: &old, ObjectNew: o})
		} else {
			pass = controllers.NodeReconcilerPredicate().Create(event.CreateEvent{Object: o})
		}
		if pass {
			st.nodeRec.Reconcile(ctx, vkReq("", o.Name))
		} else {
			st.nodeDropped++
		}
		nreq := vkReq("", o.Name)
		if _, err := st.cfgRec.Reconcile(ctx, nreq); err != nil {
			st.pendingCfg = &nreq
		}
	case "cfg":
		vkDeleteAll(st.fc, &metallbv1beta1.IPAddressPool{}, vkNS)
		vkDeleteAll(st.fc, &metallbv1beta1.BGPAdvertisement{}, vkNS)
		vkDeleteAll(st.fc, &metallbv1beta1.L2Advertisement{}, vkNS)
		vkDeleteAll(st.fc, &metallbv1beta2.BGPPeer{}, vkNS)
		name := "pool0"
		for _, o := range vkCfgObjects(e.Cfg) {
			if err := st.fc.Create(ctx, o); err != nil {
				panic(err)
			}
			name = o.GetName()
		}
		req := vkReq(vkNS, name)
		st.pendingCfg = nil
		if _, err := st.cfgRec.Reconcile(ctx, req); err != nil {
			st.pendingCfg = &req
		}
	case "resync":
		st.reload <- controllers.NewReloadEvent()
	case "touch":
		// an event of a watched kind that leaves the rendered configuration unchanged (an unrelated Secret / ConfigMap / Namespace)
		if _, err := st.cfgRec.Reconcile(ctx, vkReq(vkNS, "unrelated-object")); err != nil && st.pendingCfg == nil {
			r := vkReq(vkNS, "unrelated-object")
			st.pendingCfg = &r
		}
	}
	st.drain()
	// requeued configuration request (the handler answered SyncStateError): served again after this event
	if st.pendingCfg != nil && e.Op != "cfg" {
		req := *st.pendingCfg
		if _, err := st.cfgRec.Reconcile(ctx, req); err == nil {
			st.pendingCfg = nil
		}
		st.drain()
	}
}

func (st *vkStack) replaceSlices(ns, name string, slices []client.Object) {
	ctx := context.TODO()
	var l discovery.EndpointSliceList
	if err := st.fc.List(ctx, &l, client.InNamespace(ns)); err != nil {
		panic(err)
	}
	for i := range l.Items {
		if l.Items[i].Labels[discovery.LabelServiceName] == name {
			if err := st.fc.Delete(ctx, &l.Items[i]); err != nil {
				panic(err)
			}
		}
	}
	for _, o := range slices {
		if err := st.fc.Create(ctx, o); err != nil {
			panic(err)
		}
	}
}

// a fresh stack on the same final cluster objects
func vkFresh(ignore bool, sl *vsSL, truth *vkTruth) vsObs {
	t2 := &vkTruth{K: truth.K, nodes: truth.nodes, cfg: truth.cfg}
	f := vkNewStack(ignore, &vsSL{disabled: sl.disabled, nodes: append([]int(nil), sl.nodes...)}, t2)
	defer f.k.a.VerifSpkClose()
	for i := 0; i < 3; i++ {
		if nd := truth.nodes[i]; nd != nil {
			f.apply(vkEv{Op: "node", Node: nd})
		}
	}
	if truth.cfg != nil {
		f.apply(vkEv{Op: "cfg", Cfg: truth.cfg})
	}
	// the Services exist before the initial load: reprocessAll announces them
	ctx := context.TODO()
	for idx := 0; idx < 4; idx++ {
		if s := truth.K[idx]; s != nil {
			parts := strings.SplitN(vkSvcKeys[idx], "/", 2)
			svc, slices := vkSvcObjects(idx, s)
			wantSt := *svc.Status.DeepCopy()
			if err := f.fc.Create(ctx, svc); err != nil {
				panic(err)
			}
			svc.Status = wantSt
			if err := f.fc.Status().Update(ctx, svc); err != nil {
				panic(err)
			}
			f.replaceSlices(parts[0], parts[1], slices)
		}
	}
	f.apply(vkEv{Op: "resync"})
	return vsObserve(f.k)
}

func vkFirstDiff(a, b string) string {
	la, lb := strings.Split(a, "\n"), strings.Split(b, "\n")
	for i := 0; i < len(la) && i < len(lb); i++ {
		if la[i] != lb[i] {
			lo := i - 2
			if lo < 0 {
				lo = 0
			}
			return fmt.Sprintf("dump line %d: %q became %q (context %q)", i, strings.TrimSpace(la[i]), strings.TrimSpace(lb[i]), strings.TrimSpace(strings.Join(la[lo:i], " ")))
		}
	}
	return "dumps differ in length"
}

// ---- generator

func vkGenAdvs(r *rand.Rand) []vkAdv {
	var l []vkAdv
	for i, b := range vbGenBAdvs(r) {
		a := vkAdv{vbBAdv: b}
		a.NodeFalse = []int{}
		// a valid resource set: advertisements of one pool differ in BOTH aggregation lengths (config validation
		// rejects two advertisements of a pool with equal lengths, overlapping peers and overlapping nodes)
		a.Agg4, a.Agg6 = []int{32, 24, 25}[i%3], []int{128, 64, 120}[i%3]
		switch r.Intn(3) {
		case 0: // selected by a label the nodes may or may not carry
			a.Sel = [][2]int{{r.Intn(2), r.Intn(2)}}
			a.Nodes = []int{}
		case 1:
			a.Nodes = []int{0, 1, 2}
		default:
			a.Nodes = []int{}
			for i := 0; i < 3; i++ {
				if r.Intn(3) != 0 {
					a.Nodes = append(a.Nodes, i)
				}
			}
		}
		seen := map[int]bool{} // no duplicates, no unknown peer names in the resource
		var ps []int
		for _, p := range a.Peers {
			if p == 9 {
				p = 2
			}
			if !seen[p] {
				seen[p] = true
				ps = append(ps, p)
			}
		}
		a.Peers = ps
		if a.Peers == nil {
			a.Peers = []int{}
		}
		l = append(l, a)
	}
	return l
}

func vkGenCfg(r *rand.Rand) *vkCfg { return vkGenCfgN(r, 2) }

func vkGenCfgN(r *rand.Rand, npools int) *vkCfg {
	c := &vkCfg{}
	for i := 0; i < 3; i++ {
		if i == 0 || r.Intn(3) != 0 {
			p := vbPeer{Name: i, Attr: r.Intn(2), Sels: [][][2]int{}}
			if r.Intn(3) == 0 {
				p.Sels = append(p.Sels, [][2]int{{r.Intn(2), r.Intn(2)}})
			}
			c.Peers = append(c.Peers, p)
		}
	}
	for p := 0; p < npools; p++ {
		pl := vkPool{CIDRs: []string{"10.20.30.0/24", "fc00:30::/64"}}
		if p == 1 {
			pl.CIDRs = []string{"10.20.31.0/24", "fc00:31::/64"}
		}
		if r.Intn(5) != 0 {
			pl.BGP = vkGenAdvs(r)
		}
		if r.Intn(3) != 0 {
			nodes := []int{}
			for i := 0; i < 3; i++ {
				if r.Intn(4) != 0 {
					nodes = append(nodes, i)
				}
			}
			pl.L2 = []vsL2Adv{{Nodes: nodes, Ifs: []int{}, All: true}}
		}
		c.Pools = append(c.Pools, pl)
	}
	return c
}

var vkSvcIPs = []string{"10.20.30.1", "10.20.30.2", "10.20.31.1", "10.20.31.2"} // ns0/api and ns1/s3 live in the second pool

// endpoints with distinct addresses (no address on two nodes: F18 cannot occur); healthy or not
func vkGenSvc(r *rand.Rand, idx int, healthy bool) *vsSvc {
	s := &vsSvc{LB: r.Intn(12) != 0, Local: r.Intn(3) == 0, IPs: []string{vkSvcIPs[idx]}}
	T, F := true, false
	a := 1
	for ns := 1 + r.Intn(2); ns > 0; ns-- {
		var sl []vbEP
		for ne := 1 + r.Intn(2); ne > 0; ne-- {
			ep := vbEP{Ready: &T, Node: r.Intn(3), Addrs: []int{a}}
			if !healthy || r.Intn(5) == 0 {
				ep.Ready, ep.Serving = &F, &F
			}
			a++
			sl = append(sl, ep)
		}
		s.Eps = append(s.Eps, sl)
	}
	return s
}

func vkGenHistory(r *rand.Rand) (bool, []vkEv) {
	ignore := r.Intn(4) == 0
	var h []vkEv
	var node [3]*vsNode
	for i := 0; i < 3; i++ {
		node[i] = &vsNode{Idx: i, Labels: vbGenLabels(r), LblVal: r.Intn(4)}
		h = append(h, vkEv{Op: "node", Node: node[i]})
	}
	h = append(h, vkEv{Op: "cfg", Cfg: vkGenCfg(r)}, vkEv{Op: "resync"})
	var last [4]*vsSvc
	for n := 8 + r.Intn(8); n > 0; n-- {
		x := r.Intn(100)
		switch {
		case x < 40:
			k := r.Intn(4)
			if r.Intn(2) == 0 {
				k = r.Intn(2) // the two same-named services
			}
			healthy := r.Intn(3) != 0
			if k < 2 && last[1-k] != nil { // same name, the other namespace: opposite health, mostly
				healthy = r.Intn(4) == 0
				for _, ep := range vbEntries(vbLayout{Eps: last[1-k].Eps}) {
					if !vbCanServe(ep) {
						healthy = r.Intn(4) != 0
					}
				}
			}
			last[k] = vkGenSvc(r, k, healthy)
			h = append(h, vkEv{Op: "svc", Name: k, Svc: last[k]})
		case x < 47:
			k := r.Intn(4)
			if last[k] != nil {
				last[k] = nil
				h = append(h, vkEv{Op: "del", Name: k})
			}
		case x < 60: // only the endpoint slices change
			k := r.Intn(4)
			if last[k] != nil {
				c := *last[k]
				c.Eps = vkGenSvc(r, k, r.Intn(2) == 0).Eps
				last[k] = &c
				h = append(h, vkEv{Op: "eps", Name: k, Svc: &c})
			}
		case x < 74: // node relabel (labels only)
			i := r.Intn(3)
			if r.Intn(2) == 0 {
				i = 0
			}
			c := *node[i]
			c.Labels = vbGenLabels(r)
			node[i] = &c
			h = append(h, vkEv{Op: "node", Node: &c})
		case x < 84: // condition / exclude label flip
			i := r.Intn(3)
			c := *node[i]
			if r.Intn(3) != 0 {
				// the condition appears with status True on a node that had none / had it False; disappears or turns False
				c.Unavail = !c.Unavail
				c.CondFalse = r.Intn(2) == 0
			} else {
				c.Excl = !c.Excl
			}
			if r.Intn(3) == 0 {
				i, c = 0, *node[0] // this node's own condition, nothing else changing
				c.Unavail = !c.Unavail
				c.CondFalse = r.Intn(2) == 0
			}
			node[i] = &c
			h = append(h, vkEv{Op: "node", Node: &c})
		case x < 92:
			h = append(h, vkEv{Op: "cfg", Cfg: vkGenCfg(r)})
		case x < 97:
			// the second pool is deleted while its Services (ns0/api, ns1/s3) may be announced; the controller then clears
			// their addresses; sometimes the pool comes back
			h = append(h, vkEv{Op: "cfg", Cfg: vkGenCfgN(r, 1)})
			for _, k := range []int{2, 3} {
				if last[k] != nil {
					c := *last[k]
					c.IPs = []string{}
					last[k] = &c
					h = append(h, vkEv{Op: "svc", Name: k, Svc: &c})
				}
			}
			if r.Intn(2) == 0 {
				h = append(h, vkEv{Op: "cfg", Cfg: vkGenCfg(r)})
			}
		case x < 99:
			h = append(h, vkEv{Op: "touch"})
		default:
			h = append(h, vkEv{Op: "resync"})
		}
		if r.Intn(4) == 0 {
			h = append(h, vkEv{Op: "touch"})
		}
	}
	return ignore, h
}

// ---- statement side: the routes every session must carry (C10 eligibility + C05 content)

func vkEligible(truth *vkTruth, ignore bool) *vbWorld {
	ww := &vbWorld{svcs: map[int]vbEv{}}
	eff := vkEffective(truth.cfg, truth.nodes)
	kind := 0
	if nd := truth.nodes[0]; nd != nil {
		kind = 1
		if nd.Unavail {
			kind = 2
		}
		if nd.Excl {
			kind = 3
		}
		if nd.Unavail && nd.Excl {
			kind = 4
		}
	}
	for n, s := range truth.K {
		if !s.LB || s.Invalid || len(s.IPs) == 0 {
			continue
		}
		pi := vsPoolIdx(eff, s.IPs)
		if pi < 0 {
			continue
		}
		lay := vbLayout{Eps: s.Eps}
		for _, a := range eff.Pools[pi].BGP {
			lay.Advs = append(lay.Advs, a.Nodes)
		}
		if vbLiteral(lay, vbFlags{Node: kind, Ignore: ignore, Local: s.Local}) {
			ww.svcs[n] = vbEv{Op: "set", Svc: n, IPs: s.IPs, Advs: eff.Pools[pi].BGP}
		}
	}
	return ww
}

func vkRunHistory(out *vOut, id int, kind string, ignore bool, h []vkEv) {
	vbSvcKeys = vkSvcKeys
	defer func() { vbSvcKeys = nil; vbAdsChanged = nil }()
	sl := &vsSL{nodes: []int{0, 1, 2}}
	truth := &vkTruth{K: map[int]*vsSvc{}, nodes: map[int]*vsNode{}}
	st := vkNewStack(ignore, sl, truth)
	defer st.k.a.VerifSpkClose()
	var steps []string
	var done []vkEv
	failed := map[string]bool{}
	fail := func(sig, what string, extra map[string]any) {
		if !failed[sig] {
			failed[sig] = true
			rep := map[string]any{"stack_history": map[string]any{"ignore": ignore, "evs": done}}
			for k, v := range extra {
				rep[k] = v
			}
			out.Fail(sig, fmt.Sprintf("real reconcilers + speaker, after event %d (%s): %s", len(done)-1, done[len(done)-1].Op, what), rep)
		}
	}
	for _, e := range h {
		switch e.Op {
		case "svc", "eps":
			truth.K[e.Name] = e.Svc
		case "del":
			delete(truth.K, e.Name)
		case "node":
			if prev := truth.nodes[e.Node.Idx]; prev != nil && fmt.Sprint(vbLabelSet(prev.Labels)) == fmt.Sprint(vbLabelSet(e.Node.Labels)) && prev.Excl == e.Node.Excl {
				switch { // generator side: which change of the NetworkUnavailable condition, the labels staying as they are
				case !prev.Unavail && !prev.CondFalse && e.Node.Unavail:
					out.Stat("stack_gen_condition_appears_true", 1)
				case prev.Unavail && !e.Node.Unavail && !e.Node.CondFalse:
					out.Stat("stack_gen_true_condition_disappears", 1)
				case !prev.Unavail && prev.CondFalse && e.Node.Unavail:
					out.Stat("stack_gen_condition_false_to_true", 1)
				case prev.Unavail && !e.Node.Unavail && e.Node.CondFalse:
					out.Stat("stack_gen_condition_true_to_false", 1)
				}
			}
			truth.nodes[e.Node.Idx] = e.Node
		case "cfg":
			truth.cfg = e.Cfg
		}
		st.calls = nil
		st.cfgCalls = 0
		waited := st.pendingCfg != nil
		st.apply(e)
		// (5) nobody mutates the configuration object shared with the config reconciler (its memo)
		if st.cfgObj != nil {
			out.Stat("stack_shared_configuration_checks", 1)
			if now := vkDump(st.cfgObj); now != st.cfgDump {
				done2 := append(append([]vkEv{}, done...), e)
				if !failed["speaker-mutates-shared-configuration"] {
					failed["speaker-mutates-shared-configuration"] = true
					out.Fail("speaker-mutates-shared-configuration",
						fmt.Sprintf("real reconcilers + speaker, event %d (%s): the *config.Config handed to SetConfig (kept by the ConfigReconciler as currentConfig) was modified in place by a handler: %s",
							len(done2)-1, e.Op, vkFirstDiff(st.cfgDump, now)), map[string]any{"stack_history": map[string]any{"ignore": ignore, "evs": done2}})
				}
				st.cfgDump = now
			}
		}
		// (6) an event that leaves the rendered configuration unchanged never looks like a configuration change
		eff, _ := json.Marshal(vkEffective(truth.cfg, truth.nodes))
		if st.cfgCalls > 0 {
			if st.pendingCfg == nil && !waited && string(eff) == st.cfgAccepted && st.cfgAccepted != "" {
				done2 := append(append([]vkEv{}, done...), e)
				if !failed["unrelated-event-reloads-configuration"] {
					failed["unrelated-event-reloads-configuration"] = true
					out.Fail("unrelated-event-reloads-configuration",
						fmt.Sprintf("real reconcilers + speaker, event %d (%s): SetConfig was called again (%d times) although the configuration the cluster objects denote did not change since it was accepted (a reload and a re-sync of every Service for nothing)",
							len(done2)-1, e.Op, st.cfgCalls), map[string]any{"stack_history": map[string]any{"ignore": ignore, "evs": done2}})
				}
			}
			if st.pendingCfg == nil {
				st.cfgAccepted = string(eff)
			}
			out.Stat("stack_setconfig_calls", st.cfgCalls)
		} else if e.Op == "touch" || e.Op == "node" {
			out.Stat("stack_events_without_reload", 1)
		}
		vbAdsChanged = func(k string) { st.changed[k] = true } // (a fresh stack built below re-targets the hook)
		done = append(done, e)
		out.Stat("stack_events", 1)
		out.Stat("stack_ev_"+e.Op, 1)
		o := vsObserve(st.k)
		// (1) the handler calls, for the model: all but the last without observation
		for i, c := range st.calls {
			obs := "(mk_sobs [] [] [] [])"
			if i == len(st.calls)-1 {
				obs = vsObsCoq(o)
			}
			steps = append(steps, cPair(vsEvCoq(c), obs))
			out.Stat("stack_handler_calls", 1)
		}
		if truth.cfg == nil {
			continue
		}
		if st.pendingCfg != nil {
			// the speaker refused the configuration (it orphans an announced address) and will be served again: until the
			// controller releases the address the speaker is, by design, on the previous configuration
			out.Stat("stack_steps_with_pending_configuration", 1)
			continue
		}
		// (3) eligibility from the CURRENT objects
		ww := vkEligible(truth, ignore)
		out.Stat("stack_eligibility_checks", 1)
		if len(ww.svcs) > 0 {
			out.Stat("stack_services_expected_over_bgp", 1)
		}
		for pn, got := range o.Sess {
			want := vbSortAds(vbIntended(ww, pn))
			gb, _ := json.Marshal(got)
			wb, _ := json.Marshal(want)
			if string(gb) != string(wb) {
				fail("bgp-announced-state-differs-from-eligibility",
					fmt.Sprintf("peer %d is offered %s; by the statement (advertisement's node selector vs the node's current labels, node conditions, ignore flag, the endpoint slices of the Service's own namespace) it must be offered %s", pn, gb, wb), nil)
			}
		}
		// (3b) layer 2 (C04 seen from this node): this node's announcer holds a Service's address iff this node is the one
		// elected (smallest sha256(node#address)) among the nodes eligible by the statement on the CURRENT objects: speaker
		// alive, selected by an L2Advertisement of the address's pool, not network-unavailable, not excluded (unless
		// ignored), some endpoint of the Service's OWN slices can serve, and under Local policy one on that node
		{
			eff := vkEffective(truth.cfg, truth.nodes)
			for n := 0; n < 4; n++ {
				s := truth.K[n]
				winner, elig := -1, []int{}
				if s != nil && s.LB && !s.Invalid && len(s.IPs) > 0 {
					if pi := vsPoolIdx(eff, s.IPs); pi >= 0 {
						anyEp := false
						for _, ep := range vbEntries(vbLayout{Eps: s.Eps}) {
							if vbCanServe(ep) {
								anyEp = true
							}
						}
						for i := 0; i < 3 && anyEp; i++ {
							nd := truth.nodes[i]
							sel := false
							for _, a := range eff.Pools[pi].L2 {
								for _, x := range a.Nodes {
									if x == i {
										sel = true
									}
								}
							}
							here := !s.Local
							for _, ep := range vbEntries(vbLayout{Eps: s.Eps}) {
								if vbCanServe(ep) && ep.Node == i {
									here = true
								}
							}
							if nd != nil && sel && here && !nd.Unavail && !(nd.Excl && !ignore) {
								elig = append(elig, i)
							}
						}
						bh := ""
						for _, i := range elig {
							d := sha256.Sum256([]byte(vbNodeNames[i] + "#" + net.ParseIP(s.IPs[0]).String()))
							if winner < 0 || string(d[:]) < bh {
								winner, bh = i, string(d[:])
							}
						}
					}
				}
				_, has := o.L2[n]
				out.Stat("stack_l2_election_checks", 1)
				if len(elig) > 1 {
					out.Stat("stack_l2_contested_elections", 1)
				}
				if s != nil && s.Local && len(elig) > 0 {
					out.Stat("stack_l2_elections_under_local_policy", 1)
				}
				if has != (winner == 0) {
					fail("l2-announcers-differ-from-election",
						fmt.Sprintf("%s (addresses %v, local policy %v): this node answers over layer 2: %v; by the statement the eligible nodes are %v and the elected node is %d (-1: none)",
							vkSvcKeys[n], func() []string { if s == nil { return nil }; return s.IPs }(), s != nil && s.Local, has, elig, winner), nil)
				}
			}
		}
		// (4) the reported status
		for s := 0; s < 4; s++ {
			stored, n := vbStoredStatus(st.fc, s)
			offered := []int{}
			if ev, ok := ww.svcs[s]; ok {
				mine := map[string]bool{}
				one := &vbWorld{svcs: map[int]vbEv{s: ev}}
				for _, q := range []int{0, 1, 2} {
					for _, a := range vbIntended(one, q) {
						mine[vbPfxKey(a)] = true
					}
				}
				for pn, got := range o.Sess {
					for _, a := range got {
						if mine[vbPfxKey(a)] {
							offered = append(offered, pn)
							break
						}
					}
				}
			}
			sort.Ints(offered)
			out.Stat("stack_status_checks", 1)
			if !failed["bgp-announced-state-differs-from-eligibility"] &&
				(n > 1 || (len(offered) == 0) != (stored == nil) || (stored != nil && fmt.Sprint(stored) != fmt.Sprint(offered))) {
				fail("bgp-status-differs-from-sessions", fmt.Sprintf("ServiceBGPStatus of %s reports peers %v (%d resources); the peers whose session holds one of its prefixes are %v", vkSvcKeys[s], stored, n, offered), nil)
			}
		}
		// (2) a fresh stack on the same objects
		want := vkFresh(ignore, sl, truth)
		vbAdsChanged = func(k string) { st.changed[k] = true }
		out.Stat("stack_fresh_comparisons", 1)
		if vsAnnounced(o) != vsAnnounced(want) {
			fail("speaker-announces-differ-from-fresh", fmt.Sprintf("the stack announces %s, a fresh stack on the same objects %s", vsAnnounced(o), vsAnnounced(want)), nil)
		}
		same := 0
		for k := 0; k < 2; k++ {
			if truth.K[k] != nil {
				same++
			}
		}
		if same == 2 {
			out.Stat("stack_steps_with_same_named_services", 1)
		}
	}
	out.Stat("stack_histories", 1)
	out.Stat("stack_node_updates_dropped_by_the_real_filter", st.nodeDropped)
	out.Case(id, kind, cCtor("mk_scase", cNi(id), cBool(ignore), cListN(vsLocalIfs), "HT", cSome(cListN([]int{0, 1, 2})), cList(steps)),
		map[string]any{"ignore": ignore, "evs": done, "disabled": false, "speakers": []int{0, 1, 2}})
}

func TestVerifSpkStack(t *testing.T) {
	out := vOpen()
	defer out.Close()
	r := vRand()
	n := (vN(36) + 2) / 3
	out.rec(map[string]any{"t": "header", "coq": "Definition HT := " + vsHashCoq() + "."})
	id := 9000
	T, F := true, false
	good := [][]vbEP{{{Ready: &T, Node: 0, Addrs: []int{1}}}}
	bad := [][]vbEP{{{Ready: &F, Serving: &F, Node: 0, Addrs: []int{2}}}}
	allNodes := []int{0, 1, 2}
	adv := func(sel [][2]int) []vkAdv {
		a := vkAdv{vbBAdv: vbBAdv{Agg4: 32, Agg6: 128, Comms: []int{}, Nodes: allNodes, NodeFalse: []int{}, Peers: []int{}}, Sel: sel}
		if sel != nil {
			a.Nodes = []int{}
		}
		return []vkAdv{a}
	}
	peers := []vbPeer{{Name: 0, Sels: [][][2]int{}}, {Name: 1, Sels: [][][2]int{}}}
	l2 := []vsL2Adv{{Nodes: allNodes, Ifs: []int{}, All: true}}
	cfgAll := &vkCfg{Peers: peers, Pools: []vkPool{{CIDRs: []string{"10.20.30.0/24"}, BGP: adv(nil), L2: l2}}}
	cfgSel := &vkCfg{Peers: peers, Pools: []vkPool{{CIDRs: []string{"10.20.30.0/24"}, BGP: adv([][2]int{{0, 0}})}}}
	nd := func(i int, labels [][2]int, un bool) *vsNode { return &vsNode{Idx: i, Labels: labels, Unavail: un} }
	svc := func(ip string, eps [][]vbEP) *vsSvc { return &vsSvc{LB: true, IPs: []string{ip}, Eps: eps} }
	// same-named Services in two namespaces with opposite endpoint health, decided on both paths
	id++
	vkRunHistory(out, id, "corpus-same-name-two-namespaces", false, []vkEv{
		{Op: "node", Node: nd(0, nil, false)}, {Op: "node", Node: nd(1, nil, false)}, {Op: "node", Node: nd(2, nil, false)},
		{Op: "cfg", Cfg: cfgAll}, {Op: "resync"},
		{Op: "svc", Name: 0, Svc: svc("10.20.30.1", good)}, {Op: "svc", Name: 1, Svc: svc("10.20.30.2", bad)},
		{Op: "resync"},
		{Op: "node", Node: nd(0, nil, true)}, {Op: "node", Node: nd(0, nil, false)},
		{Op: "eps", Name: 0, Svc: svc("10.20.30.1", bad)}, {Op: "eps", Name: 1, Svc: svc("10.20.30.2", good)},
		{Op: "resync"},
	})
	// same-named Services in two namespaces, Local traffic policy, their only serving endpoints on DIFFERENT nodes (every
	// orientation): each Service is decided from the slices of its own namespace, on the single-Service and the reprocess-all path
	onNode := func(i, addr int) [][]vbEP { return [][]vbEP{{{Ready: &T, Node: i, Addrs: []int{addr}}}} }
	local := func(ip string, eps [][]vbEP) *vsSvc { return &vsSvc{LB: true, Local: true, IPs: []string{ip}, Eps: eps} }
	id++
	vkRunHistory(out, id, "corpus-same-name-two-namespaces-local-policy", false, []vkEv{
		{Op: "node", Node: nd(0, nil, false)}, {Op: "node", Node: nd(1, nil, false)}, {Op: "node", Node: nd(2, nil, false)},
		{Op: "cfg", Cfg: cfgAll}, {Op: "resync"},
		{Op: "svc", Name: 0, Svc: local("10.20.30.1", onNode(1, 1))}, {Op: "svc", Name: 1, Svc: local("10.20.30.2", onNode(0, 2))},
		{Op: "resync"},
		{Op: "eps", Name: 0, Svc: local("10.20.30.1", onNode(0, 1))}, {Op: "eps", Name: 1, Svc: local("10.20.30.2", onNode(2, 2))},
		{Op: "resync"},
		{Op: "eps", Name: 0, Svc: local("10.20.30.1", onNode(2, 1))}, {Op: "eps", Name: 1, Svc: local("10.20.30.2", onNode(1, 2))},
		{Op: "resync"},
		{Op: "eps", Name: 1, Svc: local("10.20.30.2", onNode(0, 2))}, {Op: "eps", Name: 0, Svc: local("10.20.30.1", onNode(1, 1))},
		{Op: "del", Name: 1}, {Op: "resync"},
	})
	// the NetworkUnavailable condition of this node APPEARS with status True on a node that had no such condition, disappears,
	// then is present with status False, turns True, turns False - the labels never change; Services are announced meanwhile
	ndc := func(i int, un, condFalse bool) *vsNode { return &vsNode{Idx: i, Unavail: un, CondFalse: condFalse} }
	id++
	vkRunHistory(out, id, "corpus-network-unavailable-condition-appears-and-disappears", false, []vkEv{
		{Op: "node", Node: ndc(0, false, false)}, {Op: "node", Node: ndc(1, false, false)}, {Op: "node", Node: ndc(2, false, true)},
		{Op: "cfg", Cfg: cfgAll}, {Op: "resync"},
		{Op: "svc", Name: 0, Svc: svc("10.20.30.1", good)}, {Op: "svc", Name: 2, Svc: svc("10.20.30.2", good)},
		{Op: "node", Node: ndc(0, true, false)},  // no condition -> True
		{Op: "node", Node: ndc(0, false, false)}, // True -> no condition
		{Op: "node", Node: ndc(0, false, true)},  // no condition -> False
		{Op: "node", Node: ndc(0, true, false)},  // False -> True
		{Op: "node", Node: ndc(0, false, true)},  // True -> False
		{Op: "node", Node: ndc(1, true, false)}, {Op: "node", Node: ndc(2, true, false)}, // the other nodes: the election moves
		{Op: "node", Node: ndc(1, false, false)}, {Op: "node", Node: ndc(2, false, true)},
	})
	// an advertisement selecting nodes by a label; this node is relabelled in and out
	id++
	vkRunHistory(out, id, "corpus-advertisement-node-selector-relabel", false, []vkEv{
		{Op: "node", Node: nd(0, [][2]int{{0, 1}}, false)}, {Op: "node", Node: nd(1, [][2]int{{0, 0}}, false)}, {Op: "node", Node: nd(2, nil, false)},
		{Op: "cfg", Cfg: cfgSel}, {Op: "resync"},
		{Op: "svc", Name: 0, Svc: svc("10.20.30.1", good)},
		{Op: "node", Node: nd(0, [][2]int{{0, 0}}, false)},
		{Op: "node", Node: nd(0, [][2]int{{0, 1}}, false)},
		{Op: "node", Node: nd(0, [][2]int{{0, 0}, {1, 1}}, false)},
	})
	// the advertisement's peer list is narrowed: the reported peers shrink
	narrowed := &vkCfg{Peers: peers, Pools: []vkPool{{CIDRs: []string{"10.20.30.0/24"}, BGP: []vkAdv{{vbBAdv: vbBAdv{Agg4: 32, Agg6: 128, Comms: []int{}, Nodes: allNodes, NodeFalse: []int{}, Peers: []int{0}}}}}}}
	id++
	vkRunHistory(out, id, "corpus-status-peers-shrink", false, []vkEv{
		{Op: "node", Node: nd(0, nil, false)}, {Op: "node", Node: nd(1, nil, false)}, {Op: "node", Node: nd(2, nil, false)},
		{Op: "cfg", Cfg: cfgAll}, {Op: "resync"},
		{Op: "svc", Name: 2, Svc: svc("10.20.30.1", good)},
		{Op: "cfg", Cfg: narrowed},
		{Op: "cfg", Cfg: cfgAll},
	})
	// ONE configuration change deletes the pool of an announced Service (and re-deals the other pool's layer-2 nodes): refused
	// and requeued; the controller clears the address (Service status update); the requeued request is served and accepted
	twoPools := &vkCfg{Peers: peers, Pools: []vkPool{{CIDRs: []string{"10.20.30.0/24"}, BGP: adv(nil), L2: l2}, {CIDRs: []string{"10.20.31.0/24"}, L2: l2}}}
	onePool := &vkCfg{Peers: peers, Pools: []vkPool{{CIDRs: []string{"10.20.30.0/24"}, BGP: adv(nil), L2: []vsL2Adv{{Nodes: []int{1}, Ifs: []int{}, All: true}}}}}
	id++
	vkRunHistory(out, id, "corpus-pool-deleted-while-announced", false, []vkEv{
		{Op: "node", Node: nd(0, nil, false)}, {Op: "node", Node: nd(1, nil, false)}, {Op: "node", Node: nd(2, nil, false)},
		{Op: "cfg", Cfg: twoPools}, {Op: "resync"},
		{Op: "svc", Name: 0, Svc: svc("10.20.30.1", good)}, {Op: "svc", Name: 2, Svc: svc("10.20.31.1", good)},
		{Op: "cfg", Cfg: onePool},
		{Op: "svc", Name: 2, Svc: &vsSvc{LB: true, IPs: []string{}, Eps: good}},
		{Op: "eps", Name: 0, Svc: svc("10.20.30.1", good)},
	})
	// an advertisement whose spec.peers names two peers NOT in alphabetical order; a Service of the pool is announced; then
	// events that do not change the configuration: no reload, and the configuration object stays as rendered
	unsorted := &vkCfg{Peers: peers, Pools: []vkPool{{CIDRs: []string{"10.20.30.0/24"}, L2: l2,
		BGP: []vkAdv{{vbBAdv: vbBAdv{Agg4: 32, Agg6: 128, Comms: []int{}, Nodes: allNodes, NodeFalse: []int{}, Peers: []int{1, 0}}}}}}}
	id++
	vkRunHistory(out, id, "corpus-unsorted-peer-list-then-unrelated-events", false, []vkEv{
		{Op: "node", Node: nd(0, nil, false)}, {Op: "node", Node: nd(1, nil, false)}, {Op: "node", Node: nd(2, nil, false)},
		{Op: "cfg", Cfg: unsorted}, {Op: "resync"}, {Op: "touch"},
		{Op: "svc", Name: 0, Svc: svc("10.20.30.1", good)},
		{Op: "touch"},
		{Op: "node", Node: nd(2, [][2]int{{1, 1}}, false)},
		{Op: "eps", Name: 0, Svc: svc("10.20.30.1", good)}, {Op: "touch"},
	})
	if rp := os.Getenv("VERIF_REPLAY"); rp != "" {
		if b, err := os.ReadFile(rp); err == nil {
			var x struct {
				Replay struct {
					H *struct {
						Ignore bool   `json:"ignore"`
						Evs    []vkEv `json:"evs"`
					} `json:"stack_history"`
				} `json:"replay"`
			}
			if json.Unmarshal(b, &x) == nil && x.Replay.H != nil {
				id++
				vkRunHistory(out, id, "replay", x.Replay.H.Ignore, x.Replay.H.Evs)
			}
		}
	}
	for i := 0; i < n; i++ {
		id++
		ignore, h := vkGenHistory(r)
		vkRunHistory(out, id, "random-stack", ignore, h)
	}
	_ = net.ParseIP
}
