//go:build verif

package main

// TestVerifL2Multi (C04 / C12 / C13): several LONG-RUNNING real speaker controllers, one per node,
// each with the real layer2Controller and a real layer2.Announce (no sockets: overlay constructor),
// fed the same cluster events through controller.SetConfig / SetNode / SetBalancer — not only
// ShouldAnnounce.  The configuration is rendered by the real config.For from IPAddressPool /
// L2Advertisement / Node objects (node selectors, nested node sets with equal interfaces) in one
// listing order for the long-running speakers and in ANOTHER listing order for fresh speakers.
// Histories edit the status of a dual-stack Service: resync, the same two addresses in the other
// ORDER, a changed second address with the first one kept, withdrawals, endpoint / node changes.
// After every event:
//   (1) C04: the set of speakers that announce the Service is exactly {one eligible node} (none when
//       nobody is eligible) — eligibility from the statement (vEligible of zz_verif_l2_test.go);
//   (2) C12: the announcers are the ones Model/Elect.v decides on the CURRENT status order (case
//       shipped to Coq), and the ones FRESH speakers reach from the current objects alone, rendered
//       in the other listing order (no dependence on history or on the informer's listing order);
//   (3) C13: every speaker answers (shouldAnnounce) for an address iff it announces the Service and
//       the address is in the Service's CURRENT status — nobody answers for an address no Service holds.
// Needs zz_verif_l2_test.go (view generator, eligibility, Coq terms) and the layer2 overlay.

import (
	"bytes"
	"crypto/sha256"
	"fmt"
	"math/rand"
	"net"
	"sort"
	"testing"

	"github.com/go-kit/log"
	v1 "k8s.io/api/core/v1"
	discovery "k8s.io/api/discovery/v1"
	metav1 "k8s.io/apimachinery/pkg/apis/meta/v1"
	"k8s.io/apimachinery/pkg/types"

	metallbv1beta1 "go.universe.tf/metallb/api/v1beta1"
	"go.universe.tf/metallb/internal/config"
	"go.universe.tf/metallb/internal/layer2"
	"go.universe.tf/metallb/internal/speakerlist"
)

type vmClient struct{}

func (vmClient) UpdateStatus(*v1.Service) error                     { return nil }
func (vmClient) Infof(*v1.Service, string, string, ...interface{})  {}
func (vmClient) Errorf(*v1.Service, string, string, ...interface{}) {}

const vmSvc = "ns/svc"

type vmSpeaker struct {
	c   *controller
	ann *layer2.Announce
}

func vmNewSpeaker(t *testing.T, node string, sl SpeakerList, ignore bool) *vmSpeaker {
	newBGP = (&fakeBGP{t: t}).NewSessionManager
	c, err := newController(controllerConfig{
		MyNode:                node,
		Logger:                log.NewNopLogger(),
		DisableLayer2:         true, // layer2.New would open sockets; wired below as newController does
		bgpType:               bgpNative,
		IgnoreExcludeLB:       ignore,
		BGPAdsChangedCallback: func(string) {},
	})
	if err != nil {
		t.Fatalf("newController: %v", err)
	}
	c.client = vmClient{}
	ann := layer2.VerifNew(log.NewNopLogger(), []string{"eth0"})
	c.protocolHandlers[config.Layer2] = &layer2Controller{
		announcer:       ann,
		myNode:          node,
		sList:           sl,
		ignoreExcludeLB: ignore,
		onStatusChange:  func(types.NamespacedName) {},
	}
	c.protocols = append(c.protocols, config.Layer2)
	c.layer2StatusFetchFunc = ann.GetStatus
	return &vmSpeaker{c: c, ann: ann}
}

// the cluster objects of a view, as the informers would list them in the given orders
func vmResources(v vView, advOrder, nodeOrder []int) config.ClusterResources {
	res := config.ClusterResources{}
	var addrs []string
	for _, ip := range append(append([]string{}, vIPPool4...), vIPPool6...) {
		if net.ParseIP(ip).To4() != nil {
			addrs = append(addrs, ip+"/32")
		} else {
			addrs = append(addrs, ip+"/128")
		}
	}
	res.Pools = []metallbv1beta1.IPAddressPool{{ObjectMeta: metav1.ObjectMeta{Name: "p", Namespace: "metallb-system"},
		Spec: metallbv1beta1.IPAddressPoolSpec{Addresses: addrs}}}
	for _, a := range advOrder {
		adv := metallbv1beta1.L2Advertisement{ObjectMeta: metav1.ObjectMeta{Name: fmt.Sprintf("adv%d", a), Namespace: "metallb-system"},
			Spec: metallbv1beta1.L2AdvertisementSpec{IPAddressPools: []string{"p"}}}
		nodes := v.Advs[a]
		switch {
		case len(nodes) == len(v.Names):
			// no selector: every node
		case len(nodes) == 0:
			adv.Spec.NodeSelectors = []metav1.LabelSelector{{MatchLabels: map[string]string{"verif/none": "x"}}}
		default:
			var vals []string
			for _, i := range nodes {
				vals = append(vals, v.Names[i])
			}
			adv.Spec.NodeSelectors = []metav1.LabelSelector{{MatchExpressions: []metav1.LabelSelectorRequirement{
				{Key: "kubernetes.io/hostname", Operator: metav1.LabelSelectorOpIn, Values: vals}}}}
		}
		res.L2Advs = append(res.L2Advs, adv)
	}
	for _, i := range nodeOrder {
		res.Nodes = append(res.Nodes, *vmNode(v, i))
	}
	return res
}

func vmNode(v vView, i int) *v1.Node {
	nd := v.Nodes[i]
	o := &v1.Node{ObjectMeta: metav1.ObjectMeta{Name: v.Names[i], Labels: map[string]string{"kubernetes.io/hostname": v.Names[i]}}}
	if nd.Excl {
		o.Labels[v1.LabelNodeExcludeBalancers] = ""
	}
	switch nd.Unavail {
	case 1:
		o.Status.Conditions = append(o.Status.Conditions, v1.NodeCondition{Type: v1.NodeNetworkUnavailable, Status: v1.ConditionTrue})
	case 2:
		o.Status.Conditions = append(o.Status.Conditions, v1.NodeCondition{Type: v1.NodeNetworkUnavailable, Status: v1.ConditionFalse})
	}
	return o
}

func vmService(v vView) (*v1.Service, []discovery.EndpointSlice) {
	svc := &v1.Service{ObjectMeta: metav1.ObjectMeta{Namespace: "ns", Name: "svc"},
		Spec: v1.ServiceSpec{Type: "LoadBalancer", ExternalTrafficPolicy: v1.ServiceExternalTrafficPolicyTypeCluster}}
	if v.Local {
		svc.Spec.ExternalTrafficPolicy = v1.ServiceExternalTrafficPolicyTypeLocal
	}
	for _, ip := range v.IPs {
		svc.Status.LoadBalancer.Ingress = append(svc.Status.LoadBalancer.Ingress, v1.LoadBalancerIngress{IP: ip})
	}
	var eps []discovery.EndpointSlice
	for _, s := range v.Eps {
		var sl discovery.EndpointSlice
		for k, e := range s {
			ep := discovery.Endpoint{Addresses: []string{fmt.Sprintf("2.3.4.%d", k)}}
			ep.Conditions.Ready = e.Ready
			ep.Conditions.Serving = e.Serving
			if e.Node >= 0 {
				nm := v.Names[e.Node]
				ep.NodeName = &nm
			}
			sl.Endpoints = append(sl.Endpoints, ep)
		}
		eps = append(eps, sl)
	}
	return svc, eps
}

// a view the cluster objects can express: every node has a Node object, advertisements select by node set
func vmGenView(r *rand.Rand) vView {
	v := vGenView(r)
	for i := range v.Nodes {
		v.Nodes[i].Known = true
	}
	// one history in three runs with fast dead-node detection OFF, and then every speaker holds the
	// REAL speakerlist.New(...) in its disabled mode (no bind address / labels: returns before
	// memberlist.Create, opens no socket), so that the contract between internal/speakerlist and
	// layer2Controller.speakersForPool ("disabled => every known node has a speaker") is exercised
	// and not a fake that keeps Nodes == nil and Disabled in step
	v.Disabled = r.Intn(3) == 0
	v.Speakers = nil
	for i := range v.Names {
		v.Speakers = append(v.Speakers, i) // every node runs a speaker (they are the long-running ones)
	}
	v.AdvFalse = make([][]int, len(v.Advs))
	if len(v.Advs) < 2 || r.Intn(2) == 0 { // nested node sets with equal interfaces, smaller one first or last
		all := make([]int, len(v.Names))
		for i := range all {
			all[i] = i
		}
		sub := []int{r.Intn(len(v.Names))}
		if r.Intn(2) == 0 {
			v.Advs = [][]int{sub, all}
		} else {
			v.Advs = [][]int{all, sub}
		}
		v.AdvFalse = make([][]int, 2)
	}
	for a := range v.Advs {
		sort.Ints(v.Advs[a])
	}
	// at least two serving endpoints on different nodes most of the time
	if r.Intn(4) != 0 {
		tr := true
		v.Eps = append(v.Eps, []vEP{{Ready: &tr, Node: 0}, {Ready: &tr, Node: len(v.Names) - 1}})
	}
	v.IPs = []string{vIPPool4[r.Intn(len(vIPPool4))], vIPPool6[r.Intn(len(vIPPool6))]}
	if r.Intn(4) == 0 {
		v.IPs[0], v.IPs[1] = v.IPs[1], v.IPs[0]
	}
	return v
}

type vmCluster struct {
	t    *testing.T
	v    vView
	sl   *vSL
	spks []*vmSpeaker
	cfg  *config.Config
}

func vmRender(v vView, advOrder, nodeOrder []int) *config.Config {
	cfg, err := config.For(vmResources(v, advOrder, nodeOrder), config.DontValidate)
	if err != nil {
		panic(fmt.Sprintf("config.For: %v", err))
	}
	return cfg
}

func vmSeq(n int, rev bool) []int {
	out := make([]int, n)
	for i := range out {
		if rev {
			out[i] = n - 1 - i
		} else {
			out[i] = i
		}
	}
	return out
}

func vmNewCluster(t *testing.T, v vView, reversed bool) *vmCluster {
	cl := &vmCluster{t: t, v: v, sl: &vSL{nodes: map[string]bool{}}}
	for _, nm := range v.Names {
		cl.sl.nodes[nm] = true
	}
	for _, nm := range v.Names {
		var sl SpeakerList = cl.sl
		if v.Disabled {
			real, err := speakerlist.New(log.NewNopLogger(), nm, "", "", "", "metallb-system", "", false, make(chan struct{}))
			if err != nil {
				t.Fatalf("speakerlist.New (disabled mode): %v", err)
			}
			if info := real.UsableSpeakers(); !info.Disabled {
				t.Fatalf("speakerlist.New without bind address / labels is not in disabled mode: %+v", info)
			}
			sl = real
		}
		cl.spks = append(cl.spks, vmNewSpeaker(t, nm, sl, v.Ignore))
	}
	cl.config(v, reversed)
	return cl
}

// deliver the configuration and the nodes, then (as the reconcilers' reprocess-all does) the service
func (cl *vmCluster) config(v vView, reversed bool) {
	cl.v = v
	cl.cfg = vmRender(v, vmSeq(len(v.Advs), reversed), vmSeq(len(v.Names), reversed))
	l := log.NewNopLogger()
	for _, s := range cl.spks {
		s.c.SetConfig(l, cl.cfg)
		for i := range v.Names {
			s.c.SetNode(l, vmNode(v, i))
		}
	}
}

func (cl *vmCluster) service(v vView, present bool) {
	cl.v = v
	l := log.NewNopLogger()
	for _, s := range cl.spks {
		if !present {
			s.c.SetBalancer(l, vmSvc, nil, nil)
			continue
		}
		svc, eps := vmService(v)
		s.c.SetBalancer(l, vmSvc, svc, eps)
		s.ann.VerifDrainSpam()
	}
}

func (cl *vmCluster) announcers() []bool {
	out := make([]bool, len(cl.spks))
	for i, s := range cl.spks {
		out[i] = s.ann.AnnounceName(vmSvc)
	}
	return out
}

// corpus/C12/sha-prefix-collisions.json (tools/shacollide): node-name pairs whose election digests
// sha256("<node>#<address>") share exactly their first k bytes.  Random names never collide, so an
// election that compares only a prefix of the digest (or an integer cut out of it) is
// indistinguishable on them; on these pairs it leaves the order of the two best candidates to the
// iteration order of a Go map, i.e. to chance, per call and per speaker.  Verified at run time.
var vmCollisions = []struct {
	ip, a, b string
	k        int
}{
	{"10.20.30.1", "worker-5658", "worker-11019", 1},
	{"10.20.30.1", "worker-3171", "worker-3233", 2},
	{"10.20.30.1", "worker-2275", "worker-2430", 3},
	{"10.20.30.1", "worker-24242", "worker-110566", 4},
	{"10.20.30.1", "worker-1934765", "worker-2592385", 5},
	{"fc00:f853:ccd:e799::1", "worker-2879", "worker-21338", 1},
	{"fc00:f853:ccd:e799::1", "worker-209", "worker-1298", 2},
	{"fc00:f853:ccd:e799::1", "worker-4023", "worker-4341", 3},
	{"fc00:f853:ccd:e799::1", "worker-57043", "worker-109839", 4},
	{"fc00:f853:ccd:e799::1", "worker-635262", "worker-824914", 5},
	{"10.20.30.1", "worker-145313", "worker-169010", 4},
	{"fc00:f853:ccd:e799::1", "worker-90607", "worker-171725", 4},
}

// the view of a collision history: the colliding pair and a third node whose digest is larger than
// both (the pair ranks first and second), everybody eligible, one advertisement for all nodes
func vmCollisionView(ip, a, b string, k int, disabled bool) vView {
	da, db := sha256.Sum256([]byte(a+"#"+ip)), sha256.Sum256([]byte(b+"#"+ip))
	sh := 0
	for sh < 32 && da[sh] == db[sh] {
		sh++
	}
	if sh != k {
		panic(fmt.Sprintf("corpus/C12/sha-prefix-collisions.json is wrong: %s / %s for %s share %d bytes, not %d", a, b, ip, sh, k))
	}
	hi := da
	if bytes.Compare(db[:], hi[:]) > 0 {
		hi = db
	}
	third := ""
	for i := 0; ; i++ {
		third = fmt.Sprintf("zz-%d", i)
		if d := sha256.Sum256([]byte(third + "#" + ip)); bytes.Compare(d[:], hi[:]) > 0 {
			break
		}
	}
	tr := true
	v := vView{Names: []string{a, b, third}, Nodes: []vNode{{Known: true}, {Known: true}, {Known: true}}, Disabled: disabled,
		Speakers: []int{0, 1, 2}, Advs: [][]int{{0, 1, 2}}, AdvFalse: [][]int{nil},
		Eps: [][]vEP{{{Ready: &tr, Node: 0}, {Ready: &tr, Node: 2}}}}
	if net.ParseIP(ip).To4() != nil {
		v.IPs = []string{ip, vIPPool6[1]}
	} else {
		v.IPs = []string{ip, vIPPool4[1]}
	}
	return v
}

func TestVerifL2Multi(t *testing.T) {
	out := vOpen()
	defer out.Close()
	r := vRand()
	n := vN(40)
	caseID := 0
	universe := append(append([]string{}, vIPPool4...), vIPPool6...)
	for h := -len(vmCollisions); h < n; h++ {
		var v vView
		if h < 0 { // the fixed corpus first: names whose digests collide on a prefix, memberlist on / off alternating
			c := vmCollisions[h+len(vmCollisions)]
			v = vmCollisionView(c.ip, c.a, c.b, c.k, (h+len(vmCollisions))%3 == 2)
		} else {
			v = vmGenView(r)
		}
		cl := vmNewCluster(t, v, false)
		present := false
		var trace []string
		failed := false
		fail := func(sig, what string) {
			if !failed {
				failed = true
				out.Fail(sig, what, map[string]any{"view": v, "history": trace,
					"how": "./check C04|C12|C13 (TestVerifL2Multi: one long-running real speaker controller per node)"})
			}
		}
		check := func(what string) {
			trace = append(trace, fmt.Sprintf("%s  [status %v]", what, cl.v.IPs))
			cur := cl.v
			ann := cl.announcers()
			var who, elig []int
			for i := range cur.Names {
				if ann[i] {
					who = append(who, i)
				}
				if present && vEligible(cur, i) {
					elig = append(elig, i)
				}
			}
			out.Stat("l2multi_checks", 1)
			if cur.Disabled {
				out.Stat("l2multi_checks_real_disabled_speakerlist", 1)
			}
			// (1) C04
			switch {
			case len(elig) == 0 && len(who) != 0:
				fail("l2m-announcer-without-eligible", fmt.Sprintf("after %q nodes %v announce %s although no node is eligible", what, who, vmSvc))
			case len(elig) > 0 && len(who) != 1:
				fail("l2m-not-exactly-one", fmt.Sprintf("after %q the speakers announcing %s (status %v) are %v, eligible nodes %v: not exactly one announcer", what, vmSvc, cur.IPs, who, elig))
			case len(who) == 1 && !vEligible(cur, who[0]):
				fail("l2m-winner-not-eligible", fmt.Sprintf("after %q node %d announces but is not eligible (eligible %v)", what, who[0], elig))
			}
			if len(elig) >= 2 {
				out.Stat("l2multi_contested", 1)
			}
			// (2) C12: the model's decision on the CURRENT status order ...
			if present {
				out.Case(caseID, "multi", vCaseCoq(caseID, cur, ann), map[string]any{"view": cur, "after": what})
				caseID++
				// ... and fresh speakers on the current objects listed in the other order
				fresh := vmNewCluster(t, cur, true)
				fresh.service(cur, true)
				fa := fresh.announcers()
				if fmt.Sprint(fa) != fmt.Sprint(ann) {
					fail("l2m-depends-on-history-or-listing-order", fmt.Sprintf("after %q the long-running speakers announce %v but fresh speakers given the current objects (listed in the reverse order, status %v) announce %v", what, ann, cur.IPs, fa))
				}
			}
			// (3) C13: answers exactly for the current addresses of the service, on the announcers
			held := map[string]bool{}
			if present {
				for _, ip := range cur.IPs {
					held[net.ParseIP(ip).String()] = true
				}
			}
			for i, s := range cl.spks {
				for _, ip := range universe {
					got := s.ann.VerifShouldAnnounce(net.ParseIP(ip), "eth0") == 0
					want := ann[i] && held[net.ParseIP(ip).String()]
					if got && !want {
						fail("l2m-answers-unheld-address", fmt.Sprintf("after %q node %s answers ARP/NDP for %s, which the status of %s (%v) does not hold (announcing here: %v)", what, cur.Names[i], ip, vmSvc, cur.IPs, ann[i]))
					} else if !got && want {
						fail("l2m-no-answer-for-held-address", fmt.Sprintf("after %q node %s announces %s but does not answer for %s", what, cur.Names[i], vmSvc, ip))
					}
				}
			}
		}
		other := func(ip string) string { // another address of the same family
			pool := vIPPool6
			if net.ParseIP(ip).To4() != nil {
				pool = vIPPool4
			}
			for {
				if c := pool[r.Intn(len(pool))]; c != ip {
					return c
				}
			}
		}
		if h < 0 {
			// several rounds: every SetBalancer re-runs the election in every speaker, each over its own
			// map iteration order; every check also builds fresh speakers in the other listing order
			present = true
			cl.service(v, true)
			check("announce (colliding digests rank first and second)")
			for k := 0; k < 6; k++ {
				cl.service(v, true)
				check(fmt.Sprintf("resync %d", k))
			}
			out.Stat("l2multi_collision_histories", 1)
			continue
		}
		// the directed part: announce, resync, same addresses in the other order, second address changed
		present = true
		cl.service(v, true)
		check("announce")
		cl.service(v, true)
		check("resync")
		v2 := vCopyView(v)
		v2.IPs = []string{v.IPs[1], v.IPs[0]}
		cl.service(v2, true)
		check("status lists the same addresses in the other order")
		v3 := vCopyView(v2)
		v3.IPs = []string{v2.IPs[0], other(v2.IPs[1])}
		cl.service(v3, true)
		check("second address changed, first kept")
		cur := v3
		// random continuation
		for k := 0; k < 6; k++ {
			nv := vCopyView(cur)
			switch r.Intn(7) {
			case 0:
				present = false
				cl.service(cur, false)
				check("service deleted")
				continue
			case 1:
				nv.IPs = []string{cur.IPs[1], cur.IPs[0]}
			case 2:
				nv.IPs = []string{cur.IPs[0], other(cur.IPs[1])}
			case 3:
				nv.IPs = []string{other(cur.IPs[0]), cur.IPs[1]}
			case 4: // an endpoint moves / stops serving
				g := vmGenView(r)
				nv.Eps = nil
				for _, s := range g.Eps {
					var sl []vEP
					for _, e := range s {
						if e.Node < len(cur.Names) {
							sl = append(sl, e)
						}
					}
					nv.Eps = append(nv.Eps, sl)
				}
			case 5: // a node becomes unavailable / available, the reconcilers reprocess everything
				i := r.Intn(len(cur.Names))
				nv.Nodes = append([]vNode{}, cur.Nodes...)
				nv.Nodes[i].Unavail = (cur.Nodes[i].Unavail + 1) % 3
				cl.config(nv, false)
			default: // the advertisements change
				g := vmGenView(r)
				nv.Advs = nil
				for _, a := range g.Advs {
					var l []int
					for _, x := range a {
						if x < len(cur.Names) {
							l = append(l, x)
						}
					}
					nv.Advs = append(nv.Advs, l)
				}
				nv.AdvFalse = make([][]int, len(nv.Advs))
				cl.config(nv, false)
			}
			present = true
			cl.service(nv, true)
			cur = nv
			check(fmt.Sprintf("event %d", k))
		}
	}
}
