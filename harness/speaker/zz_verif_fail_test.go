//go:build verif

package main

// Directed scenarios with FAILING handlers (TestVerifSpkFailures), on the real speaker
// controller with the recording session manager of zz_verif_bgp_test.go made to fail a
// given call.  The harness plays the reconcilers: a SyncStateError is retried with the
// same object (node / service reconcilers requeue; the config reconciler resets its memo
// and retries), a SyncStateErrorNoRetry is NOT retried (the config reconciler keeps the
// new configuration in `currentConfig`, see TestVerifSpkCfgMemo in internal/k8s/controllers).
// After the retries have succeeded the speaker is compared with a fresh speaker on the
// same final cluster state.  Handler failures are outside the quantifier of C09; the
// scenarios document what the code does (signatures below) and stay as regression tests.

import (
	"fmt"
	"testing"

	"github.com/go-kit/log"

	"go.universe.tf/metallb/internal/config"
	"go.universe.tf/metallb/internal/k8s/controllers"
)

func vfSvcEvent(k *vsCtl, name int, s *vsSvc) controllers.SyncState {
	lg := log.NewNopLogger()
	if s == nil {
		return k.c.SetBalancer(lg, vbSvcName(name), nil, nil)
	}
	return k.c.SetBalancer(lg, vbSvcName(name), vsBuildSvc(name, s), vbBuildEps(vbLayout{Eps: s.Eps}))
}

func vfResync(k *vsCtl, w *vsWorld) {
	for n := 0; n < 4; n++ {
		if s := w.K[n]; s != nil {
			if st := vfSvcEvent(k, n, s); st != controllers.SyncStateSuccess {
				panic(fmt.Sprintf("re-sync: SetBalancer returned %v", st))
			}
		}
	}
}

type vfScenario struct {
	name string
	sig  string
	run  func(k *vsCtl, w *vsWorld, note func(string, ...any))
}

func TestVerifSpkFailures(t *testing.T) {
	out := vOpen()
	defer out.Close()
	lg := log.NewNopLogger()
	T := true
	eps := [][]vbEP{{{Ready: &T, Node: 0, Addrs: []int{1}}}}
	svc := func(ip string) *vsSvc { return &vsSvc{LB: true, IPs: []string{ip}, Eps: eps} }
	bgpAdv := []vbBAdv{{Agg4: 32, Agg6: 128, Nodes: []int{0}}}
	l2 := []vsL2Adv{{Nodes: []int{0}, All: true}}
	cfg1 := &vsCfg{Pools: []vsPool{{CIDRs: []string{"10.20.30.0/24"}, BGP: bgpAdv, L2: l2}},
		Peers: []vbPeer{{Name: 0, Sels: [][][2]int{}}, {Name: 1, Sels: [][][2]int{{{0, 0}}}}}}
	setCfg := func(k *vsCtl, w *vsWorld, c *vsCfg) controllers.SyncState {
		built := vsBuildCfg(c)
		st := k.c.SetConfig(lg, built)
		w.lastCfg = c
		if k.c.config == built {
			w.cfg = c
		}
		if st == controllers.SyncStateReprocessAll {
			vfResync(k, w)
		}
		return st
	}
	setNode := func(k *vsCtl, w *vsWorld, n *vsNode) controllers.SyncState {
		w.nodes[n.Idx] = n
		st := k.c.SetNode(lg, vsBuildNode(n))
		if st == controllers.SyncStateReprocessAll {
			vfResync(k, w)
		}
		return st
	}
	scenarios := []vfScenario{
		{name: "1 SetNode: handler fails on the event that changes availability; the retry sees no change",
			sig: "speaker-node-resync-lost-after-handler-error",
			run: func(k *vsCtl, w *vsWorld, note func(string, ...any)) {
				setNode(k, w, &vsNode{Idx: 0})
				setCfg(k, w, cfg1)
				w.K[0] = svc("10.20.30.1")
				vfSvcEvent(k, 0, w.K[0])
				// one Node update: label k0=v0 (peer1's selector starts matching -> NewSession) AND NetworkUnavailable
				nd := &vsNode{Idx: 0, Unavail: true, Labels: [][2]int{{0, 0}}}
				k.sm.failNew = 1
				st := setNode(k, w, nd)
				note("SetNode with a failing NewSession returned %v (1 = SyncStateError)", st)
				for i := 0; st == controllers.SyncStateError && i < 3; i++ { // the node reconciler requeues
					st = setNode(k, w, nd)
					note("retry %d returned %v (0 = Success, 2 = ReprocessAll)", i+1, st)
				}
			}},
		{name: "2a SetBalancer: Session.Set fails, the Service is deleted before the retry: svcAds keeps a ghost",
			sig: "bgp-ghost-advertisement-after-failed-set",
			run: func(k *vsCtl, w *vsWorld, note func(string, ...any)) {
				setNode(k, w, &vsNode{Idx: 0})
				setCfg(k, w, cfg1)
				k.sm.failSet = 1
				st := vfSvcEvent(k, 0, svc("10.20.30.1"))
				note("SetBalancer(s0) with a failing Session.Set returned %v (1 = SyncStateError)", st)
				st = vfSvcEvent(k, 0, nil) // the Service is deleted; the requeued key now finds no Service
				note("SetBalancer(s0 deleted) returned %v", st)
				w.K[1] = svc("10.20.30.2")
				st = vfSvcEvent(k, 1, w.K[1]) // an unrelated Service: updateAds publishes everything in svcAds
				note("SetBalancer(s1) returned %v", st)
			}},
		{name: "2b DeleteBalancer: Session.Set fails, the retry finds svcAds already empty and does not publish",
			sig: "bgp-withdrawal-not-published-after-failed-delete",
			run: func(k *vsCtl, w *vsWorld, note func(string, ...any)) {
				setNode(k, w, &vsNode{Idx: 0})
				setCfg(k, w, cfg1)
				vfSvcEvent(k, 0, svc("10.20.30.1"))
				k.sm.failSet = 1
				st := vfSvcEvent(k, 0, nil)
				note("SetBalancer(s0 deleted) with a failing Session.Set returned %v (1 = SyncStateError)", st)
				for i := 0; st == controllers.SyncStateError && i < 3; i++ { // the service reconciler requeues
					st = vfSvcEvent(k, 0, nil)
					note("retry %d returned %v", i+1, st)
				}
			}},
		{name: "4 SetConfig: a BGP handler error gives ErrorNoRetry; c.config stays old, the peers are already the new ones, nothing re-applies",
			sig: "speaker-config-half-applied-after-errornoretry",
			run: func(k *vsCtl, w *vsWorld, note func(string, ...any)) {
				setNode(k, w, &vsNode{Idx: 0})
				setCfg(k, w, cfg1)
				w.K[0] = svc("10.20.30.1")
				vfSvcEvent(k, 0, w.K[0])
				w.K[1] = svc("10.20.31.1")
				vfSvcEvent(k, 1, w.K[1])
				cfg2 := &vsCfg{Pools: []vsPool{{CIDRs: []string{"10.20.30.0/24", "10.20.31.0/24"}, BGP: bgpAdv, L2: l2}},
					Peers: []vbPeer{{Name: 0, Sels: [][][2]int{}}, {Name: 2, Sels: [][][2]int{}}}}
				k.sm.failNew = 1
				st := setCfg(k, w, cfg2)
				note("SetConfig with a failing NewSession returned %v (3 = SyncStateErrorNoRetry); controller.config is the new one: %v", st, w.cfg == cfg2)
				// ErrorNoRetry: the config reconciler keeps cfg2 in its memo and returns; later reconciliations of the same
				// resources are ignored ("configuration did not change").  Services keep being reconciled:
				vfResync(k, w)
				w.cfg = cfg2 // the cluster's configuration (what a fresh speaker gets)
			}},
	}
	for _, sc := range scenarios {
		w := &vsWorld{K: map[int]*vsSvc{}, nodes: map[int]*vsNode{}}
		sl := &vsSL{nodes: []int{0}}
		k := vsNewCtl(false, sl)
		var notes []string
		sc.run(k, w, func(f string, a ...any) { notes = append(notes, fmt.Sprintf(f, a...)) })
		got := vsObserve(k)
		h := vsHist{Speakers: []int{0}}
		want := vsFresh(h, k, w)
		bc := k.c.protocolHandlers[config.BGP].(*bgpController)
		ghost := []string{}
		if keys, ok := vbSvcAdsKeys(bc); ok {
			for _, name := range keys {
				if w.K[vsSvcIdx(name)] == nil {
					ghost = append(ghost, name)
				}
			}
		} else {
			out.Stat("whitebox_skipped:svcAds", 1)
		}
		out.Stat("failure_scenarios", 1)
		if vsAnnounced(got) != vsAnnounced(want) || len(ghost) > 0 {
			out.Stat("failure_scenarios_diverging", 1)
			out.Fail(sc.sig, fmt.Sprintf("scenario %s: after the retries the speaker announces %s, a fresh speaker on the same cluster state %s; svcAds of Services that do not exist: %v",
				sc.name, vsAnnounced(got), vsAnnounced(want), ghost), map[string]any{"scenario": sc.name, "steps": notes})
		}
		k.a.VerifSpkClose()
	}
}
