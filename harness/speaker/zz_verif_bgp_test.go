//go:build verif

package main

// Harness for C10 and C05 (Model/BgpAds.v).
//  TestVerifBgpElig (C10): real bgpController.ShouldAnnounce on endpoint layouts x
//    node flags x ignore flag x policy; literal-statement oracle; route check
//    through the whole controller with a recording session manager.
//  TestVerifBgpAds (C05): histories of SetBalancer / DeleteBalancer / SetConfig /
//    SetNode on the real bgpController; after every event the last Set of every
//    live session and PeersForService are shipped to Coq and compared with the
//    route set computed from the statement (oracle).

import (
	"context"
	"encoding/json"
	"fmt"
	"math/big"
	"math/rand"
	"net"
	"os"
	"reflect"
	"sort"
	"strings"
	"testing"
	"time"

	"github.com/go-kit/log"
	v1 "k8s.io/api/core/v1"
	discovery "k8s.io/api/discovery/v1"
	metav1 "k8s.io/apimachinery/pkg/apis/meta/v1"
	"k8s.io/apimachinery/pkg/labels"
	"k8s.io/apimachinery/pkg/runtime"
	"k8s.io/apimachinery/pkg/types"
	"sigs.k8s.io/controller-runtime/pkg/client"
	"sigs.k8s.io/controller-runtime/pkg/client/fake"
	"sigs.k8s.io/controller-runtime/pkg/reconcile"

	metallbv1beta1 "go.universe.tf/metallb/api/v1beta1"
	"go.universe.tf/metallb/internal/k8s/controllers"

	"go.universe.tf/metallb/internal/bgp"
	"go.universe.tf/metallb/internal/bgp/community"
	"go.universe.tf/metallb/internal/config"
)

// ---------------------------------------------------------------- recording session manager

type vbSess struct {
	name   string
	addr   string
	params bgp.SessionParameters
	sm     *vbSM
	ads    []*bgp.Advertisement
	closed bool
	sets   int
}

func (s *vbSess) Close() error { s.closed = true; return nil }
func (s *vbSess) Set(ads ...*bgp.Advertisement) error {
	if s.closed {
		panic("Set on a closed session")
	}
	if s.sm != nil && s.sm.failSet > 0 {
		s.sm.failSet--
		return fmt.Errorf("injected Session.Set failure")
	}
	s.ads = append([]*bgp.Advertisement(nil), ads...)
	s.sets++
	return nil
}

// failNew / failSet / failBFD: number of upcoming calls that fail (only the directed failure scenarios set them)
type vbSM struct {
	sessions                  []*vbSess
	failNew, failSet, failBFD int
}

func (m *vbSM) NewSession(_ log.Logger, a bgp.SessionParameters) (bgp.Session, error) {
	if m.failNew > 0 {
		m.failNew--
		return nil, fmt.Errorf("injected NewSession failure")
	}
	s := &vbSess{name: a.SessionName, addr: a.PeerAddress, params: a, sm: m}
	m.sessions = append(m.sessions, s)
	return s, nil
}
func (m *vbSM) SyncBFDProfiles(map[string]*config.BFDProfile) error {
	if m.failBFD > 0 {
		m.failBFD--
		return fmt.Errorf("injected SyncBFDProfiles failure")
	}
	return nil
}
func (m *vbSM) SyncExtraInfo(string) error                          { return nil }
func (m *vbSM) SetEventCallback(func(interface{}))                  {}

// live sessions by peer name; dup reports two live sessions for one peer
func (m *vbSM) live() (map[string]*vbSess, bool) {
	r := map[string]*vbSess{}
	dup := false
	for _, s := range m.sessions {
		if s.closed {
			continue
		}
		if _, ok := r[s.name]; ok {
			dup = true
		}
		r[s.name] = s
	}
	return r, dup
}

// an advertisement in comparable form
type vbAd struct {
	Fam   int    `json:"fam"` // 4 / 6
	Base  string `json:"base"`
	Len   int    `json:"len"`
	LP    uint32 `json:"lp"`
	Comms []int  `json:"comms"`
	Peers []int  `json:"peers"`
}

func (a vbAd) key() string { b, _ := json.Marshal(a); return string(b) }

var vbComms = []string{"0:100", "1:200", "large:70000:1:2"}

func vbComm(i int) community.BGPCommunity {
	c, err := community.New(vbComms[i])
	if err != nil {
		panic(err)
	}
	return c
}
func vbCommIdx(c community.BGPCommunity) int {
	for i := range vbComms {
		if vbComm(i).String() == c.String() {
			return i
		}
	}
	return 99
}

func vbPeerName(i int) string { return fmt.Sprintf("peer%d", i) }
func vbPeerIdx(s string) int {
	var i int
	if _, err := fmt.Sscanf(s, "peer%d", &i); err != nil {
		return 99
	}
	return i
}

func vbIPNum(ip net.IP) (int, *big.Int) {
	if v4 := ip.To4(); v4 != nil {
		return 4, new(big.Int).SetBytes(v4)
	}
	return 6, new(big.Int).SetBytes(ip.To16())
}

func vbAdOf(a *bgp.Advertisement) vbAd {
	fam, base := vbIPNum(a.Prefix.IP)
	ones, bits := a.Prefix.Mask.Size()
	if (fam == 4 && bits != 32) || (fam == 6 && bits != 128) {
		ones = 999
	}
	r := vbAd{Fam: fam, Base: base.String(), Len: ones, LP: a.LocalPref, Comms: []int{}, Peers: []int{}}
	for _, c := range a.Communities {
		r.Comms = append(r.Comms, vbCommIdx(c))
	}
	for _, p := range a.Peers {
		r.Peers = append(r.Peers, vbPeerIdx(p))
	}
	sort.Ints(r.Peers) // the peers an advertisement names are a set (their order is a representation choice)
	return r
}

// sorted duplicate-free
func vbAdSet(ads []*bgp.Advertisement) []vbAd {
	m := map[string]vbAd{}
	for _, a := range ads {
		x := vbAdOf(a)
		m[x.key()] = x
	}
	return vbSortAds(m)
}
func vbSortAds(m map[string]vbAd) []vbAd {
	keys := make([]string, 0, len(m))
	for k := range m {
		keys = append(keys, k)
	}
	sort.Strings(keys)
	r := make([]vbAd, 0, len(keys))
	for _, k := range keys {
		r = append(r, m[k])
	}
	return r
}

func vbAdCoq(a vbAd) string {
	f := "F4"
	if a.Fam == 6 {
		f = "F6"
	}
	return cCtor("Build_adv", cCtor("Build_prefix", f, a.Base+"%N", cNi(a.Len)), cN(uint64(a.LP)), cListN(a.Comms), cListN(a.Peers))
}
func vbAdsCoq(l []vbAd) string {
	it := make([]string, len(l))
	for i, a := range l {
		it[i] = vbAdCoq(a)
	}
	return cList(it)
}

// ---------------------------------------------------------------- C10

type vbEP struct {
	Ready   *bool `json:"ready"`
	Serving *bool `json:"serving"`
	Term    *bool `json:"terminating,omitempty"` // EndpointCanServe does not look at it
	Node    int   `json:"node"` // 0 = me, 1,2 = other nodes, -1 = nil
	Addrs   []int `json:"addrs"`
}
type vbLayout struct {
	Advs     [][]int  `json:"advs"`      // node indexes with Nodes[n] = true
	AdvFalse [][]int  `json:"adv_false"` // node indexes present with value false
	Eps      [][]vbEP `json:"eps"`
}
type vbFlags struct {
	Node   int  `json:"node"` // 0 nil, 1 known no flag, 2 unavailable, 3 excluded (label ""), 4 both (label "true"), 5 condition present with status False, 6 excluded (label "false"), 7 excluded (label "0")
	Ignore bool `json:"ignore"`
	Local  bool `json:"local"`
}

var vbNodeNames = []string{"node-me", "node-b", "node-c"}

func vbCanServe(e vbEP) bool {
	if e.Ready == nil || *e.Ready {
		return true
	}
	return e.Serving != nil && *e.Serving
}

func vbBuildEps(l vbLayout) []discovery.EndpointSlice {
	var eps []discovery.EndpointSlice
	for _, s := range l.Eps {
		var sl discovery.EndpointSlice
		for _, e := range s {
			ep := discovery.Endpoint{}
			for _, a := range e.Addrs {
				ep.Addresses = append(ep.Addresses, fmt.Sprintf("2.3.4.%d", a))
			}
			ep.Conditions.Ready = e.Ready
			ep.Conditions.Serving = e.Serving
			ep.Conditions.Terminating = e.Term
			if e.Node >= 0 {
				nm := vbNodeNames[e.Node]
				ep.NodeName = &nm
			}
			sl.Endpoints = append(sl.Endpoints, ep)
		}
		eps = append(eps, sl)
	}
	return eps
}

func vbBuildNode(name string, kind int) *v1.Node {
	if kind == 0 {
		return nil
	}
	o := &v1.Node{ObjectMeta: metav1.ObjectMeta{Name: name, Labels: map[string]string{"k": "v"}}}
	// the key's presence excludes the node, whatever the value
	switch kind {
	case 3:
		o.Labels[v1.LabelNodeExcludeBalancers] = ""
	case 4:
		o.Labels[v1.LabelNodeExcludeBalancers] = "true"
	case 6:
		o.Labels[v1.LabelNodeExcludeBalancers] = "false"
	case 7:
		o.Labels[v1.LabelNodeExcludeBalancers] = "0"
	}
	if kind == 2 || kind == 4 {
		o.Status.Conditions = []v1.NodeCondition{{Type: v1.NodeReady, Status: v1.ConditionTrue},
			{Type: v1.NodeNetworkUnavailable, Status: v1.ConditionTrue}}
	}
	if kind == 5 {
		o.Status.Conditions = []v1.NodeCondition{{Type: v1.NodeNetworkUnavailable, Status: v1.ConditionFalse}}
	}
	return o
}
func vbNodeFlags(kind int) (known, unavail, excl bool) {
	return kind != 0, kind == 2 || kind == 4, kind == 3 || kind == 4 || kind == 6 || kind == 7
}

func vbBuildBGPAdvs(l vbLayout) []*config.BGPAdvertisement {
	var r []*config.BGPAdvertisement
	for a := range l.Advs {
		adv := &config.BGPAdvertisement{AggregationLength: 32, AggregationLengthV6: 128, Nodes: map[string]bool{}}
		for _, i := range l.Advs[a] {
			adv.Nodes[vbNodeNames[i]] = true
		}
		if a < len(l.AdvFalse) {
			for _, i := range l.AdvFalse[a] {
				adv.Nodes[vbNodeNames[i]] = false
			}
		}
		r = append(r, adv)
	}
	return r
}

func vbSvc(local bool, ips ...string) *v1.Service {
	svc := &v1.Service{ObjectMeta: metav1.ObjectMeta{Name: "svc", Namespace: "ns"},
		Spec: v1.ServiceSpec{Type: "LoadBalancer", ExternalTrafficPolicy: v1.ServiceExternalTrafficPolicyTypeCluster}}
	if local {
		svc.Spec.ExternalTrafficPolicy = v1.ServiceExternalTrafficPolicyTypeLocal
	}
	for _, ip := range ips {
		svc.Status.LoadBalancer.Ingress = append(svc.Status.LoadBalancer.Ingress, v1.LoadBalancerIngress{IP: ip})
	}
	return svc
}

// the real decision
func vbDecide(l vbLayout, f vbFlags) string {
	c := &bgpController{logger: log.NewNopLogger(), myNode: vbNodeNames[0], ignoreExcludeLB: f.Ignore}
	nodes := map[string]*v1.Node{}
	if n := vbBuildNode(vbNodeNames[0], f.Node); n != nil {
		nodes[vbNodeNames[0]] = n
	}
	nodes[vbNodeNames[1]] = vbBuildNode(vbNodeNames[1], 4) // the flags of other nodes must not matter
	pool := &config.Pool{Name: "p", BGPAdvertisements: vbBuildBGPAdvs(l)}
	return c.ShouldAnnounce(log.NewNopLogger(), "ns/svc", []net.IP{net.ParseIP("10.20.30.1")}, pool, vbSvc(f.Local), vbBuildEps(l), nodes)
}

func vbEntries(l vbLayout) []vbEP {
	var r []vbEP
	for _, s := range l.Eps {
		r = append(r, s...)
	}
	return r
}
func vbCarries(e vbEP, a int) bool {
	for _, x := range e.Addrs {
		if x == a {
			return true
		}
	}
	return false
}
func vbAddrs(l vbLayout) []int {
	m := map[int]bool{}
	for _, e := range vbEntries(l) {
		for _, a := range e.Addrs {
			m[a] = true
		}
	}
	var r []int
	for a := range m {
		r = append(r, a)
	}
	sort.Ints(r)
	return r
}

// "an endpoint address counts as ready only if every entry carrying it is ready or serving"
func vbReadyAll(l vbLayout, a int) bool {
	found := false
	for _, e := range vbEntries(l) {
		if vbCarries(e, a) {
			found = true
			if !vbCanServe(e) {
				return false
			}
		}
	}
	return found
}
func vbOnNode(l vbLayout, a, node int) bool {
	for _, e := range vbEntries(l) {
		if vbCarries(e, a) && e.Node == node {
			return true
		}
	}
	return false
}
func vbReadyHere(l vbLayout, a int) bool {
	found := false
	for _, e := range vbEntries(l) {
		if vbCarries(e, a) && e.Node == 0 {
			found = true
			if !vbCanServe(e) {
				return false
			}
		}
	}
	return found
}

// the property's right-hand side, literally
func vbLiteral(l vbLayout, f vbFlags) bool {
	sel := false
	for _, a := range l.Advs {
		for _, i := range a {
			if i == 0 {
				sel = true
			}
		}
	}
	known, unavail, excl := vbNodeFlags(f.Node)
	if !sel || (known && unavail) || (known && excl && !f.Ignore) {
		return false
	}
	for _, a := range vbAddrs(l) {
		if vbReadyAll(l, a) && (!f.Local || vbOnNode(l, a, 0)) {
			return true
		}
	}
	return false
}

// shape of F18: Local, an address all of whose entries on this node can serve but
// with a non-serving entry elsewhere, and some other fully ready address
func vbF18Shape(l vbLayout, f vbFlags) bool {
	if !f.Local {
		return false
	}
	here, other := false, false
	for _, a := range vbAddrs(l) {
		if vbReadyHere(l, a) && !vbReadyAll(l, a) {
			here = true
		}
		if vbReadyAll(l, a) {
			other = true
		}
	}
	return here && other
}

func vbMultiHomed(l vbLayout) bool {
	for _, a := range vbAddrs(l) {
		n, first := -2, true
		for _, e := range vbEntries(l) {
			if vbCarries(e, a) {
				if first {
					n, first = e.Node, false
				} else if e.Node != n {
					return true
				}
			}
		}
	}
	return false
}

func vbReasonCoq(s string) string {
	switch s {
	case "":
		return "RAnnounce"
	case "notOwner":
		return "RNotOwner"
	case "nodeNetworkUnavailable":
		return "RNetUnavail"
	case "nodeLabeledExcludeBalancers":
		return "RExcluded"
	case "noLocalEndpoints":
		return "RNoLocal"
	case "noEndpoints":
		return "RNoEndpoints"
	}
	return "RUnknownReason"
}

func vbEpsCoq(eps [][]vbEP) string {
	var sl []string
	for _, s := range eps {
		var l []string
		for _, e := range s {
			nd := cNone
			if e.Node >= 0 {
				nd = cSome(cNi(e.Node))
			}
			l = append(l, cCtor("Build_bep", cOptBool(e.Ready), cOptBool(e.Serving), nd, cListN(e.Addrs)))
		}
		sl = append(sl, cList(l))
	}
	return cList(sl)
}

func vbLayoutCoq(id int, l vbLayout, fl []vbFlags, obs []string) string {
	var advs []string
	for _, a := range l.Advs {
		advs = append(advs, cListN(a))
	}
	var o []string
	for i, f := range fl {
		nd := cNone
		if known, u, x := vbNodeFlags(f.Node); known {
			nd = cSome(cPair(cBool(u), cBool(x)))
		}
		o = append(o, cCtor("mk_f10", nd, cBool(f.Ignore), cBool(f.Local), vbReasonCoq(obs[i])))
	}
	return cCtor("mk_ecase10", cNi(id), cNi(0), cList(advs), vbEpsCoq(l.Eps), cList(o))
}

func vbAllFlags() []vbFlags {
	var r []vbFlags
	for nd := 0; nd <= 7; nd++ {
		for ig := 0; ig < 2; ig++ {
			for lo := 0; lo < 2; lo++ {
				r = append(r, vbFlags{Node: nd, Ignore: ig == 1, Local: lo == 1})
			}
		}
	}
	return r
}

func vbBoolPtr(r *rand.Rand) *bool { return vbPtr(r.Intn(3)) }

func vbGenEP(r *rand.Rand) vbEP {
	e := vbEP{Ready: vbBoolPtr(r), Serving: vbBoolPtr(r), Term: vbBoolPtr(r), Node: r.Intn(4) - 1}
	switch r.Intn(6) {
	case 0, 1:
		b := true
		e.Ready = &b
	case 2: // rolling restart / drain: not ready, still serving, terminating
		e.Ready, e.Serving, e.Term = vbPtr(2), vbPtr(1), vbPtr(1)
	}
	switch r.Intn(10) {
	case 0:
		e.Addrs = []int{}
	case 1:
		e.Addrs = []int{1, 2}
	case 2:
		e.Addrs = []int{3}
	default:
		e.Addrs = []int{1 + r.Intn(2)}
	}
	return e
}

func vbGenLayout(r *rand.Rand) vbLayout {
	l := vbLayout{}
	na := r.Intn(3)
	if na == 0 && r.Intn(3) > 0 {
		na = 1
	}
	for a := 0; a < na; a++ {
		var t, f []int
		for i := 0; i < 3; i++ {
			switch r.Intn(5) {
			case 0:
			case 1:
				f = append(f, i)
			default:
				t = append(t, i)
			}
		}
		l.Advs = append(l.Advs, t)
		l.AdvFalse = append(l.AdvFalse, f)
	}
	ns := r.Intn(4)
	for s := 0; s < ns; s++ {
		var sl []vbEP
		ne := r.Intn(4)
		for e := 0; e < ne; e++ {
			sl = append(sl, vbGenEP(r))
		}
		l.Eps = append(l.Eps, sl)
	}
	return l
}

// split a flat entry list into slices (the slicing must not matter)
func vbSplit(es []vbEP, r *rand.Rand) [][]vbEP {
	var out [][]vbEP
	var cur []vbEP
	for _, e := range es {
		cur = append(cur, e)
		if r.Intn(2) == 0 {
			out = append(out, cur)
			cur = nil
		}
	}
	if cur != nil {
		out = append(out, cur)
	}
	return out
}

func vbPtr(i int) *bool {
	switch i {
	case 0:
		return nil
	case 1:
		b := true
		return &b
	}
	b := false
	return &b
}

// exhaustive layouts of <= 3 entries (thorough tier)
func vbExhaustive(r *rand.Rand, emit func(vbLayout)) {
	var alpha9, alpha3 []vbEP
	addrs := [][]int{{1}, {2}, {1, 2}}
	for rd := 0; rd < 3; rd++ {
		for sv := 0; sv < 3; sv++ {
			for nd := -1; nd <= 1; nd++ {
				for _, ad := range addrs {
					alpha9 = append(alpha9, vbEP{Ready: vbPtr(rd), Serving: vbPtr(sv), Term: vbPtr((rd + 2*sv) % 3), Node: nd, Addrs: ad})
				}
			}
		}
	}
	for _, cond := range [][2]int{{1, 0}, {2, 1}, {2, 2}} {
		for nd := -1; nd <= 1; nd++ {
			for _, ad := range addrs {
				alpha3 = append(alpha3, vbEP{Ready: vbPtr(cond[0]), Serving: vbPtr(cond[1]), Term: vbPtr(cond[1]), Node: nd, Addrs: ad})
			}
		}
	}
	advs := [][]int{{0, 1}}
	emit(vbLayout{Advs: advs})
	for _, a := range alpha9 {
		emit(vbLayout{Advs: advs, Eps: [][]vbEP{{a}}})
	}
	for _, a := range alpha9 {
		for _, b := range alpha9 {
			emit(vbLayout{Advs: advs, Eps: vbSplit([]vbEP{a, b}, r)})
		}
	}
	for _, a := range alpha3 {
		for _, b := range alpha3 {
			for _, c := range alpha3 {
				emit(vbLayout{Advs: advs, Eps: vbSplit([]vbEP{a, b, c}, r)})
			}
		}
	}
}

func vbNewController(sm *vbSM, ignore bool, disableL2 bool) *controller {
	return vbNewControllerFor(vbNodeNames[0], sm, ignore, disableL2)
}

// BGP implementation of the controllers built by the harness.  frr-k8s with the secret passed through
// (Namespace == FRRK8sNamespace) hands the peer's secret REFERENCE to the session, so that the arguments
// of NewSession show every field of the peer configuration a session was created from.
var vbBGPType = bgpFrrK8s

func vbNewControllerFor(me string, sm *vbSM, ignore bool, disableL2 bool) *controller {
	old := newBGP
	newBGP = func(controllerConfig) bgp.SessionManager { return sm }
	defer func() { newBGP = old }()
	c, err := newController(controllerConfig{MyNode: me, DisableLayer2: disableL2, bgpType: vbBGPType,
		Logger: log.NewNopLogger(), IgnoreExcludeLB: ignore, BGPAdsChangedCallback: func(k string) {
			if vbAdsChanged != nil {
				vbAdsChanged(k)
			}
		}})
	if err != nil {
		panic(err)
	}
	c.client = &vbK8S{}
	return c
}

type vbK8S struct{ warnings int }

func (s *vbK8S) UpdateStatus(*v1.Service) error                       { return nil }
func (s *vbK8S) Infof(*v1.Service, string, string, ...interface{})    {}
func (s *vbK8S) Errorf(*v1.Service, string, string, ...interface{})   { s.warnings++ }

// whole-controller route check: are routes of the service on the session iff ShouldAnnounce == ""
func vbRoutesAppear(l vbLayout, f vbFlags) bool {
	sm := &vbSM{}
	c := vbNewController(sm, f.Ignore, true)
	lg := log.NewNopLogger()
	_, cidr, _ := net.ParseCIDR("10.20.30.0/24")
	cfg := &config.Config{
		Peers: map[string]*config.Peer{"peer0": {Name: "peer0", Addr: net.ParseIP("10.9.0.1"), ASN: 64512, MyASN: 64512}},
		Pools: &config.Pools{ByName: map[string]*config.Pool{"p": {Name: "p", CIDR: []*net.IPNet{cidr}, BGPAdvertisements: vbBuildBGPAdvs(l)}}},
	}
	c.SetConfig(lg, cfg)
	if n := vbBuildNode(vbNodeNames[0], f.Node); n != nil {
		c.SetNode(lg, n)
	}
	c.SetBalancer(lg, "ns/svc", vbSvc(f.Local, "10.20.30.1"), vbBuildEps(l))
	live, _ := sm.live()
	s := live["peer0"]
	return s != nil && len(s.ads) > 0
}

func TestVerifBgpElig(t *testing.T) {
	out := vOpen()
	defer out.Close()
	r := vRand()
	n := vN(400)
	flags := vbAllFlags()
	id := 0
	seen := map[string]bool{}
	handle := func(kind string, l vbLayout) {
		id++
		obs := make([]string, len(flags))
		for i, f := range flags {
			obs[i] = vbDecide(l, f)
			got := obs[i] == ""
			want := vbLiteral(l, f)
			out.Stat("decisions", 1)
			if got {
				out.Stat("announce", 1)
			}
			out.Stat("reason:"+vbReasonCoq(obs[i]), 1) // which of the applicable reasons the code reports (free): evidence only
			{ // generator side: which conditions of the statement fail on this input
				sel := false
				for _, a := range l.Advs {
					for _, x := range a {
						if x == 0 {
							sel = true
						}
					}
				}
				known, un, ex := vbNodeFlags(f.Node)
				anyAll, anyHere := false, false
				for _, a := range vbAddrs(l) {
					if vbReadyAll(l, a) {
						anyAll = true
					}
					if vbReadyHere(l, a) {
						anyHere = true
					}
				}
				if !sel {
					out.Stat("fails:not-selected", 1)
				}
				if known && un {
					out.Stat("fails:network-unavailable", 1)
				}
				if known && ex && !f.Ignore {
					out.Stat("fails:excluded", 1)
				}
				if !anyAll {
					out.Stat("fails:no-endpoint", 1)
				}
				if f.Local && !anyHere {
					out.Stat("fails:no-local-endpoint", 1)
				}
				if want {
					out.Stat("statement-says-announce", 1)
				}
				if !want && vbF18Shape(l, f) {
					out.Stat("inputs-of-the-duplicate-address-shape", 1)
				}
			}
			if got != want {
				rep := map[string]any{"layout": l, "flags": f, "decision": obs[i], "statement_says_announce": want}
				if got && !want && vbF18Shape(l, f) {
					out.Stat("f18_hits", 1)
					out.Fail("bgp-local-duplicate-address-across-nodes",
						fmt.Sprintf("Local policy: announced although no address with an entry on this node is ready under 'every entry carrying it' (flags %+v)", f), rep)
				} else {
					out.Fail("bgp-eligibility-differs-from-statement",
						fmt.Sprintf("ShouldAnnounce=%q but the statement says announce=%v (flags %+v)", obs[i], want, f), rep)
				}
			}
		}
		// determinism (map orders) on one combination
		k := r.Intn(len(flags))
		if again := vbDecide(l, flags[k]); again != obs[k] {
			out.Fail("bgp-eligibility-nondeterministic", fmt.Sprintf("%q then %q", obs[k], again), map[string]any{"layout": l, "flags": flags[k]})
		}
		// whole controller: routes appear iff the decision is "announce"
		if kind != "exhaustive" || id%16 == 0 {
			k2 := r.Intn(len(flags))
			if app := vbRoutesAppear(l, flags[k2]); app != (obs[k2] == "") {
				out.Fail("bgp-routes-disagree-with-decision",
					fmt.Sprintf("decision %q but routes on the session: %v", obs[k2], app), map[string]any{"layout": l, "flags": flags[k2]})
			}
			out.Stat("route_checks", 1)
		}
		if vbMultiHomed(l) {
			out.Stat("multi_homed_address", 1)
		}
		conflict := false
		for _, a := range vbAddrs(l) {
			y, nn := false, false
			for _, e := range vbEntries(l) {
				if vbCarries(e, a) {
					if vbCanServe(e) {
						y = true
					} else {
						nn = true
					}
				}
			}
			if y && nn {
				conflict = true
			}
		}
		if conflict {
			out.Stat("conflicting_conditions_for_one_address", 1)
		}
		b, _ := json.Marshal(l)
		if len(vbEntries(l)) > 0 && !seen[string(b)] {
			seen[string(b)] = true
			out.Stat("distinct_nonempty_layouts", 1)
		}
		out.Case(id, kind, vbLayoutCoq(id, l, flags, obs), l)
	}
	// corpus: the F18 witness and its variant without the unrelated address run first
	T, F := true, false
	f18 := vbLayout{Advs: [][]int{{0}}, Eps: [][]vbEP{{{Ready: &T, Node: 0, Addrs: []int{1}}, {Ready: &F, Serving: &F, Node: 1, Addrs: []int{1}}, {Ready: &T, Node: 1, Addrs: []int{2}}}}}
	handle("corpus-f18", f18)
	f18b := vbLayout{Advs: [][]int{{0}}, Eps: [][]vbEP{{{Ready: &T, Node: 0, Addrs: []int{1}}, {Ready: &F, Serving: &F, Node: 1, Addrs: []int{1}}}}}
	handle("corpus-f18-without-unrelated", f18b)
	// rolling restart: the only endpoints able to serve are not ready, serving, terminating
	handle("corpus-terminating-serving", vbLayout{Advs: [][]int{{0, 1}}, Eps: [][]vbEP{{{Ready: &F, Serving: &T, Term: &T, Node: 0, Addrs: []int{1}}, {Ready: &F, Serving: &F, Node: 1, Addrs: []int{2}}}}})
	handle("corpus-terminating-serving-elsewhere", vbLayout{Advs: [][]int{{0}}, Eps: [][]vbEP{{{Ready: &F, Serving: &T, Term: &T, Node: 1, Addrs: []int{1}}}, {{Ready: &F, Serving: &T, Term: &F, Node: 0, Addrs: []int{2}}}}})
	for _, p := range vbCorpus("C10") {
		var l vbLayout
		if json.Unmarshal(p, &l) == nil {
			handle("corpus", l)
		}
	}
	if rp := os.Getenv("VERIF_REPLAY"); rp != "" {
		if l, ok := vbReplayLayout(rp); ok {
			handle("replay", l)
		}
	}
	for k := 0; k < n; k++ {
		handle("random", vbGenLayout(r))
	}
	if vThorough() {
		vbExhaustive(r, func(l vbLayout) { handle("exhaustive", l) })
	}
}

func vbReplayLayout(path string) (vbLayout, bool) {
	b, err := os.ReadFile(path)
	if err != nil {
		return vbLayout{}, false
	}
	var x struct {
		Replay struct {
			Layout *vbLayout `json:"layout"`
		} `json:"replay"`
	}
	if json.Unmarshal(b, &x) != nil || x.Replay.Layout == nil {
		return vbLayout{}, false
	}
	return *x.Replay.Layout, true
}

// corpus files /verif/corpus/<prop>/*.json (path from VERIF_CORPUS, default /verif/corpus)
func vbCorpus(prop string) [][]byte {
	dir := os.Getenv("VERIF_CORPUS")
	if dir == "" {
		dir = "/verif/corpus"
	}
	ents, err := os.ReadDir(dir + "/" + prop)
	if err != nil {
		return nil
	}
	var names []string
	for _, e := range ents {
		if strings.HasSuffix(e.Name(), ".json") {
			names = append(names, e.Name())
		}
	}
	sort.Strings(names)
	var r [][]byte
	for _, nm := range names {
		if b, err := os.ReadFile(dir + "/" + prop + "/" + nm); err == nil {
			r = append(r, b)
		}
	}
	return r
}

// ---------------------------------------------------------------- C05

type vbBAdv struct {
	Agg4      int   `json:"agg4"`
	Agg6      int   `json:"agg6"`
	LP        int   `json:"lp"`
	Comms     []int `json:"comms"`
	Nodes     []int `json:"nodes"`      // node indexes with true
	NodeFalse []int `json:"node_false"` // node indexes present with false
	Peers     []int `json:"peers"`
}
type vbPeer struct {
	Name int        `json:"name"`
	Sels [][][2]int `json:"sels"` // selectors: lists of (key,value)
	Attr int        `json:"attr"`
	Ref  int        `json:"ref,omitempty"` // 0: no password; n: authenticated through secret "sec<n>" (same content)
}
type vbEv struct {
	Op     string     `json:"op"` // set del cfg node
	Svc    int        `json:"svc,omitempty"`
	IPs    []string   `json:"ips,omitempty"`
	Advs   []vbBAdv   `json:"advs,omitempty"`
	Peers  []vbPeer   `json:"peers,omitempty"`
	Node   int        `json:"node,omitempty"`
	Labels [][2]int   `json:"labels,omitempty"`
}

var vbIPs4 = []string{"10.20.30.1", "10.20.30.2", "10.20.30.130", "10.20.31.7"}
var vbIPs6 = []string{"fc00::1", "fc00::2", "fc00:0:0:1::5"}

// keys of the services; the stack harness uses same-named services in two namespaces
var vbSvcKeys []string

func vbSvcName(i int) string {
	if vbSvcKeys != nil {
		return vbSvcKeys[i]
	}
	return fmt.Sprintf("ns/s%d", i)
}

func vbLabelSet(l [][2]int) map[string]string {
	m := map[string]string{}
	for _, kv := range l {
		m[fmt.Sprintf("k%d", kv[0])] = fmt.Sprintf("v%d", kv[1])
	}
	return m
}

// when set (per history), all peers of a configuration sit on ONE address and differ by port and VRF
// (one BGPPeer per rack / per VRF towards the same router)
var vbSharedPeerAddr = false

func vbBuildPeer(p vbPeer) *config.Peer {
	c := &config.Peer{Name: vbPeerName(p.Name), Addr: net.ParseIP(fmt.Sprintf("10.9.0.%d", p.Name+1)),
		ASN: uint32(64512 + p.Attr), MyASN: 64512}
	if vbSharedPeerAddr {
		c.Addr, c.Port = net.ParseIP("10.9.0.1"), uint16(179+p.Name)
		if p.Name%2 == 1 {
			c.VRF = fmt.Sprintf("vrf%d", p.Name)
		}
	}
	for _, s := range p.Sels {
		c.NodeSelectors = append(c.NodeSelectors, labels.SelectorFromSet(labels.Set(vbLabelSet(s))))
	}
	if p.Ref > 0 {
		c.SecretPassword = "s3cret"
		c.PasswordRef.Name, c.PasswordRef.Namespace = fmt.Sprintf("sec%d", p.Ref), "metallb-system"
	}
	return c
}

func vbBuildBAdv(a vbBAdv) *config.BGPAdvertisement {
	adv := &config.BGPAdvertisement{AggregationLength: a.Agg4, AggregationLengthV6: a.Agg6, LocalPref: uint32(a.LP),
		Communities: map[community.BGPCommunity]bool{}, Nodes: map[string]bool{}}
	for _, c := range a.Comms {
		adv.Communities[vbComm(c)] = true
	}
	for _, i := range a.Nodes {
		adv.Nodes[vbNodeNames[i]] = true
	}
	for _, i := range a.NodeFalse {
		adv.Nodes[vbNodeNames[i]] = false
	}
	for _, p := range a.Peers {
		adv.Peers = append(adv.Peers, vbPeerName(p))
	}
	return adv
}

func vbGenLabels(r *rand.Rand) [][2]int {
	l := [][2]int{}
	for k := 0; k < 2; k++ {
		if v := r.Intn(3); v > 0 {
			l = append(l, [2]int{k, v - 1})
		}
	}
	return l
}

func vbGenPeers(r *rand.Rand) []vbPeer {
	var ps []vbPeer
	for i := 0; i < 3; i++ {
		if r.Intn(4) == 0 {
			continue
		}
		p := vbPeer{Name: i, Attr: r.Intn(2), Ref: r.Intn(3), Sels: [][][2]int{}}
		for s := r.Intn(3); s > 0; s-- {
			sel := vbGenLabels(r)
			p.Sels = append(p.Sels, sel)
		}
		ps = append(ps, p)
	}
	return ps
}

func vbGenBAdvs(r *rand.Rand) []vbBAdv {
	var l []vbBAdv
	for n := 1 + r.Intn(3); n > 0; n-- {
		a := vbBAdv{Agg4: []int{32, 32, 24, 25, 31}[r.Intn(5)], Agg6: []int{128, 128, 64, 120}[r.Intn(4)],
			LP: []int{0, 100, 200}[r.Intn(3)], Comms: []int{}, Nodes: []int{}, NodeFalse: []int{}, Peers: []int{}}
		for c := 0; c < 3; c++ {
			if r.Intn(3) == 0 {
				a.Comms = append(a.Comms, c)
			}
		}
		switch r.Intn(6) {
		case 0:
		case 1:
			a.NodeFalse = append(a.NodeFalse, 0)
		default:
			a.Nodes = append(a.Nodes, 0)
		}
		if r.Intn(2) == 0 {
			a.Nodes = append(a.Nodes, 1)
		}
		if r.Intn(2) == 0 {
			for _, p := range r.Perm(4) {
				if r.Intn(2) == 0 {
					if p == 3 {
						p = 9 // a peer that is never configured
					}
					a.Peers = append(a.Peers, p)
				}
			}
		}
		l = append(l, a)
	}
	return l
}

func vbGenIPs(r *rand.Rand) []string {
	switch r.Intn(5) {
	case 0:
		return []string{vbIPs6[r.Intn(len(vbIPs6))]}
	case 1:
		return []string{vbIPs4[r.Intn(len(vbIPs4))], vbIPs6[r.Intn(len(vbIPs6))]}
	case 2:
		return []string{vbIPs6[r.Intn(len(vbIPs6))], vbIPs4[r.Intn(len(vbIPs4))]}
	}
	return []string{vbIPs4[r.Intn(len(vbIPs4))]}
}

func vbGenHistory(r *rand.Rand) []vbEv {
	var h []vbEv
	n := 6 + r.Intn(15)
	var pools [][]vbBAdv // a few advertisement lists reused by several services (shared aggregates)
	for i := 0; i < 2; i++ {
		pools = append(pools, vbGenBAdvs(r))
	}
	for i := 0; i < n; i++ {
		x := r.Intn(100)
		switch {
		case i == 0 || x < 18:
			h = append(h, vbEv{Op: "cfg", Peers: vbGenPeers(r)})
		case x < 36:
			nd := 0
			if r.Intn(6) == 0 {
				nd = 1
			}
			h = append(h, vbEv{Op: "node", Node: nd, Labels: vbGenLabels(r)})
		case x < 50:
			h = append(h, vbEv{Op: "del", Svc: r.Intn(4)})
		default:
			advs := pools[r.Intn(len(pools))]
			if r.Intn(5) == 0 {
				advs = vbGenBAdvs(r)
			}
			h = append(h, vbEv{Op: "set", Svc: r.Intn(4), IPs: vbGenIPs(r), Advs: advs})
		}
	}
	return h
}

func vbIPCoq(s string) string {
	fam, n := vbIPNum(net.ParseIP(s))
	if fam == 4 {
		return cCtor("V4", cBigN(n))
	}
	return cCtor("V6", cBigN(n))
}

func vbPairsCoq(l [][2]int) string {
	it := make([]string, len(l))
	for i, kv := range l {
		it[i] = cPair(cNi(kv[0]), cNi(kv[1]))
	}
	return cList(it)
}

func vbBAdvsCoq(advs []vbBAdv) string {
	var al []string
	for _, a := range advs {
		al = append(al, cCtor("Build_badv", cNi(a.Agg4), cNi(a.Agg6), cNi(a.LP), cListN(a.Comms), cListN(a.Nodes), cListN(a.Peers)))
	}
	return cList(al)
}

func vbPeersCoq(ps []vbPeer) string {
	var pl []string
	for _, p := range ps {
		var sl []string
		for _, s := range p.Sels {
			sl = append(sl, vbPairsCoq(s))
		}
		pl = append(pl, cCtor("Build_pcfg", cNi(p.Name), cList(sl), cNi(p.Attr), cNi(p.Ref)))
	}
	return cList(pl)
}

func vbEvCoq(e vbEv) string {
	switch e.Op {
	case "set":
		var ips []string
		for _, s := range e.IPs {
			ips = append(ips, vbIPCoq(s))
		}
		return cCtor("BSet", cNi(e.Svc), cList(ips), vbBAdvsCoq(e.Advs))
	case "del":
		return cCtor("BDel", cNi(e.Svc))
	case "cfg":
		return cCtor("BCfg", vbPeersCoq(e.Peers))
	}
	return cCtor("BNode", cNi(e.Node), vbPairsCoq(e.Labels))
}

type vbObs struct {
	Sess  map[int][]vbAd `json:"sess"`  // live sessions: peer -> last Set (set)
	Peers map[int][]int  `json:"peers"` // PeersForService per service
	Made  map[int][2]int `json:"made"`  // live sessions: (attribute, secret reference) in the NewSession arguments
}

func vbObsCoq(o vbObs) string {
	var sl, pl []string
	var ks []int
	for k := range o.Sess {
		ks = append(ks, k)
	}
	sort.Ints(ks)
	for _, k := range ks {
		sl = append(sl, cPair(cNi(k), vbAdsCoq(o.Sess[k])))
	}
	for s := 0; s < 4; s++ {
		pl = append(pl, cPair(cNi(s), cListN(o.Peers[s])))
	}
	var ml []string
	for _, k := range ks {
		ml = append(ml, cPair(cNi(k), cPair(cNi(o.Made[k][0]), cNi(o.Made[k][1]))))
	}
	return cCtor("mk_bobs", cList(sl), cList(pl), cList(ml))
}

// statement oracle state: what is announced (last SetBalancer not followed by a
// DeleteBalancer), the configured peers and the labels of this node
type vbWorld struct {
	svcs   map[int]vbEv
	peers  []vbPeer
	labels [][2]int
}

func vbSelMatches(sel [][2]int, labels [][2]int) bool {
	for _, kv := range sel {
		ok := false
		for _, l := range labels {
			if l == kv {
				ok = true
			}
		}
		if !ok {
			return false
		}
	}
	return true
}

func vbShouldRun(p vbPeer, labels [][2]int) bool {
	if len(p.Sels) == 0 {
		return true
	}
	for _, s := range p.Sels {
		if vbSelMatches(s, labels) {
			return true
		}
	}
	return false
}

// the route set the statement prescribes for peer p, and per service the prefixes it produces
func vbIntended(w *vbWorld, p int) map[string]vbAd {
	res := map[string]vbAd{}
	for _, ev := range w.svcs {
		for _, ips := range ev.IPs {
			ip := net.ParseIP(ips)
			for _, a := range ev.Advs {
				sel := false
				for _, n := range a.Nodes {
					if n == 0 {
						sel = true
					}
				}
				named := len(a.Peers) == 0
				for _, q := range a.Peers {
					if q == p {
						named = true
					}
				}
				if !sel || !named {
					continue
				}
				x := vbTrunc(ip, a)
				x.LP = uint32(a.LP)
				x.Comms = append([]int{}, a.Comms...)
				sort.Ints(x.Comms)
				x.Peers = append([]int{}, a.Peers...)
				sort.Ints(x.Peers)
				res[x.key()] = x
			}
		}
	}
	return res
}

// address truncated to the advertisement's aggregation length, by arithmetic
func vbTrunc(ip net.IP, a vbBAdv) vbAd {
	fam, n := vbIPNum(ip)
	width, ln := 32, a.Agg4
	if fam == 6 {
		width, ln = 128, a.Agg6
	}
	sh := uint(width - ln)
	n = new(big.Int).Lsh(new(big.Int).Rsh(n, sh), sh)
	return vbAd{Fam: fam, Base: n.String(), Len: ln}
}

func vbPfxKey(a vbAd) string { return fmt.Sprintf("%d/%s/%d", a.Fam, a.Base, a.Len) }


// white box: the services for which the bgpController holds advertisements (its svcAds), read through reflect so that
// the harness does not depend on the representation (a map keyed by service, or a slice of records whose first string
// field is the service).  ok=false: representation not understood, the caller counts whitebox_skipped:svcAds.
func vbSvcAdsKeys(bc *bgpController) (keys []string, ok bool) {
	f := reflect.ValueOf(bc).Elem().FieldByName("svcAds")
	if !f.IsValid() {
		return nil, false
	}
	switch f.Kind() {
	case reflect.Map:
		if f.Type().Key().Kind() != reflect.String {
			return nil, false
		}
		for _, k := range f.MapKeys() {
			keys = append(keys, k.String())
		}
		return keys, true
	case reflect.Slice:
		for i := 0; i < f.Len(); i++ {
			e := f.Index(i)
			if e.Kind() == reflect.Ptr {
				e = e.Elem()
			}
			if e.Kind() != reflect.Struct {
				return nil, false
			}
			found := false
			for j := 0; j < e.NumField(); j++ {
				if e.Field(j).Kind() == reflect.String {
					keys = append(keys, e.Field(j).String())
					found = true
					break
				}
			}
			if !found {
				return nil, false
			}
		}
		return keys, true
	}
	return nil, false
}

// receives the keys bgpController.notifyAdsChanged reports (speaker/main.go turns them into ServiceBGPStatus events)
var vbAdsChanged func(string)

// the REAL ServiceBGPStatusReconciler on a fake API server (status subresource, and the field index that
// SetupWithManager registers: "status.serviceName" -> "<ns>/<name>-<node>" from the resource's labels)
func vbNewStatusReconciler(peers controllers.PeersForService) (*controllers.ServiceBGPStatusReconciler, client.Client) {
	sch := runtime.NewScheme()
	if err := metallbv1beta1.AddToScheme(sch); err != nil {
		panic(err)
	}
	if err := v1.AddToScheme(sch); err != nil {
		panic(err)
	}
	fc := fake.NewClientBuilder().WithScheme(sch).WithStatusSubresource(&metallbv1beta1.ServiceBGPStatus{}).
		WithIndex(&metallbv1beta1.ServiceBGPStatus{}, "status.serviceName", func(o client.Object) []string {
			l := o.GetLabels()
			return []string{fmt.Sprintf("%s/%s-%s", l[controllers.LabelServiceNamespace], l[controllers.LabelServiceName], l[controllers.LabelAnnounceNode])}
		}).Build()
	pod := &v1.Pod{ObjectMeta: metav1.ObjectMeta{Name: "speaker-x", Namespace: "metallb-system", UID: "0000-verif"}}
	return &controllers.ServiceBGPStatusReconciler{Client: fc, Logger: log.NewNopLogger(), NodeName: vbNodeNames[0],
		Namespace: "metallb-system", SpeakerPod: pod, PeersFetcher: peers}, fc
}

// what is REPORTED: the peers stored in the ServiceBGPStatus of (service, this node); nil if there is none
func vbStoredStatus(fc client.Client, svc int) ([]int, int) {
	var l metallbv1beta1.ServiceBGPStatusList
	if err := fc.List(context.TODO(), &l); err != nil {
		panic(err)
	}
	var res []int
	n := 0
	for _, it := range l.Items {
		if it.Status.ServiceNamespace+"/"+it.Status.ServiceName == vbSvcName(svc) && it.Status.Node == vbNodeNames[0] {
			n++
			res = []int{}
			for _, p := range it.Status.Peers {
				res = append(res, vbPeerIdx(p))
			}
			sort.Ints(res)
		}
	}
	return res, n
}

func vbRunHistory(out *vOut, id int, kind string, h []vbEv) {
	sm := &vbSM{}
	ctl := vbNewController(sm, false, true)
	c := ctl.protocolHandlers[config.BGP].(*bgpController)
	lg := log.NewNopLogger()
	w := &vbWorld{svcs: map[int]vbEv{}}
	var steps []string
	failed := false
	prevRun := map[int]string{}
	// the status publication: ads-changed notifications -> ServiceBGPStatusReconciler -> stored ServiceBGPStatus
	changed := map[string]bool{}
	vbAdsChanged = func(k string) { changed[k] = true }
	defer func() { vbAdsChanged = nil }()
	statusRec, statusClient := vbNewStatusReconciler(c.PeersForService)
	for i, e := range h {
		switch e.Op {
		case "set":
			var ips []net.IP
			for _, s := range e.IPs {
				ips = append(ips, net.ParseIP(s))
			}
			pool := &config.Pool{Name: "p"}
			for _, a := range e.Advs {
				pool.BGPAdvertisements = append(pool.BGPAdvertisements, vbBuildBAdv(a))
			}
			if err := c.SetBalancer(lg, vbSvcName(e.Svc), ips, pool, ctl.client, vbSvc(false, e.IPs...)); err != nil {
				panic(err)
			}
			w.svcs[e.Svc] = e
			out.Stat("op_set", 1)
		case "del":
			if err := c.DeleteBalancer(lg, vbSvcName(e.Svc), "verif"); err != nil {
				panic(err)
			}
			if _, ok := w.svcs[e.Svc]; ok {
				out.Stat("op_del_announced", 1)
			}
			delete(w.svcs, e.Svc)
			out.Stat("op_del", 1)
		case "cfg":
			cfg := &config.Config{Peers: map[string]*config.Peer{}}
			for _, p := range e.Peers {
				cfg.Peers[vbPeerName(p.Name)] = vbBuildPeer(p)
			}
			before, _ := sm.live()
			if err := c.SetConfig(lg, cfg); err != nil {
				panic(err)
			}
			// a peer whose configuration did not change keeps its session (no withdraw / re-offer of its routes)
			for _, p := range e.Peers {
				for _, q := range w.peers {
					pb, _ := json.Marshal(p)
					qb, _ := json.Marshal(q)
					if string(pb) == string(qb) {
						if s := before[vbPeerName(p.Name)]; s != nil {
							out.Stat("unchanged_peer_kept_checks", 1)
							if s.closed && !failed {
								failed = true
								out.Fail("bgp-session-recreated-for-unchanged-peer",
									fmt.Sprintf("after event %d (cfg): the session of peer %d was closed although its configuration did not change", i, p.Name),
									map[string]any{"history": h[:i+1]})
							}
						}
					}
				}
			}
			w.peers = e.Peers
			out.Stat("op_cfg", 1)
		case "node":
			if err := c.SetNode(lg, &v1.Node{ObjectMeta: metav1.ObjectMeta{Name: vbNodeNames[e.Node], Labels: vbLabelSet(e.Labels)}}); err != nil {
				panic(err)
			}
			if e.Node == 0 {
				w.labels = e.Labels
			}
			out.Stat("op_node", 1)
		}
		// ---- generator-side coverage counters (computed from the inputs and the statement only, never from the code's answers)
		{
			nowRun := map[int]string{}
			for _, p := range w.peers {
				if vbShouldRun(p, w.labels) {
					pb, _ := json.Marshal(p)
					nowRun[p.Name] = string(pb)
					if len(vbIntended(w, p.Name)) > 0 {
						out.Stat("gen_selected_peer_with_routes", 1)
					}
				}
			}
			if e.Op == "node" || e.Op == "cfg" {
				for pn, was := range prevRun {
					if now, ok := nowRun[pn]; !ok {
						out.Stat("gen_peer_stops_by_"+e.Op, 1)
					} else if now == was && e.Op == "cfg" {
						out.Stat("gen_cfg_keeps_running_peer_unchanged", 1)
					} else if now != was {
						out.Stat("gen_cfg_changes_running_peer", 1)
					}
				}
			}
			prevRun = nowRun
			for sv, ev := range w.svcs {
				one := &vbWorld{svcs: map[int]vbEv{sv: ev}}
				np := 0
				for pn := range nowRun {
					if len(vbIntended(one, pn)) > 0 {
						np++
					}
				}
				if np > 0 {
					out.Stat("gen_service_intended_at_some_peer", 1)
				}
				if np > 1 {
					out.Stat("gen_service_intended_at_several_peers", 1)
				}
			}
		}
		// ---- observe
		live, dup := sm.live()
		o := vbObs{Sess: map[int][]vbAd{}, Peers: map[int][]int{}, Made: map[int][2]int{}}
		for nm, s := range live {
			o.Sess[vbPeerIdx(nm)] = vbAdSet(s.ads)
			ref := 0
			fmt.Sscanf(s.params.PasswordRef.Name, "sec%d", &ref)
			o.Made[vbPeerIdx(nm)] = [2]int{int(s.params.PeerASN) - 64512, ref}
		}
		for s := 0; s < 4; s++ {
			ps := []int{}
			for p := range c.PeersForService(vbSvcName(s)) {
				ps = append(ps, vbPeerIdx(p))
			}
			sort.Ints(ps)
			o.Peers[s] = ps
		}
		steps = append(steps, cPair(vbEvCoq(e), vbObsCoq(o)))
		// ---- oracle (from the statement)
		fail := func(sig, what string) {
			if !failed {
				failed = true
				out.Fail(sig, fmt.Sprintf("after event %d (%s): %s", i, e.Op, what), map[string]any{"history": h[:i+1], "observed": o})
			}
		}
		if dup {
			fail("bgp-two-live-sessions-for-one-peer", "two live sessions for one peer")
		}
		for _, p := range w.peers {
			_, has := o.Sess[p.Name]
			if want := vbShouldRun(p, w.labels); want != has {
				fail("bgp-session-liveness", fmt.Sprintf("peer %d: session live=%v, node selectors say %v", p.Name, has, want))
			}
		}
		for pn := range o.Sess {
			conf := false
			for _, p := range w.peers {
				if p.Name == pn {
					conf = true
					if o.Made[pn] != [2]int{p.Attr, p.Ref} {
						fail("bgp-session-params-stale-after-setconfig",
							fmt.Sprintf("the live session of peer %d was created with (asn attribute, secret) %v, its current configuration has %v", pn, o.Made[pn], [2]int{p.Attr, p.Ref}))
					}
				}
			}
			if !conf {
				fail("bgp-session-for-unconfigured-peer", fmt.Sprintf("live session for peer %d which is not configured", pn))
			}
		}
		for pn, got := range o.Sess {
			want := vbSortAds(vbIntended(w, pn))
			gb, _ := json.Marshal(got)
			wb, _ := json.Marshal(want)
			out.Stat("oracle_route_sets", 1)
			if len(want) > 0 {
				out.Stat("oracle_nonempty_route_sets", 1)
			}
			if string(gb) != string(wb) {
				fail("bgp-offered-routes-differ", fmt.Sprintf("peer %d is offered %s, the statement prescribes %s", pn, gb, wb))
			}
		}
		// a Service is reported as advertised to exactly the peers that are offered one of its prefixes
		for s := 0; s < 4; s++ {
			want := []int{}
			if ev, ok := w.svcs[s]; ok {
				mine := map[string]bool{}
				one := &vbWorld{svcs: map[int]vbEv{s: ev}}
				for _, q := range []int{0, 1, 2, 9} {
					for _, a := range vbIntended(one, q) {
						mine[vbPfxKey(a)] = true
					}
				}
				for pn, got := range o.Sess {
					for _, a := range got {
						if mine[vbPfxKey(a)] {
							want = append(want, pn)
							break
						}
					}
				}
			}
			sort.Ints(want)
			if fmt.Sprint(want) != fmt.Sprint(o.Peers[s]) {
				stale := false
				for _, p := range o.Peers[s] {
					if _, ok := o.Sess[p]; !ok {
						stale = true
					}
				}
				if stale {
					out.Stat("peers_for_service_reports_dead_session", 1)
					fail("bgp-peers-for-service-stale-after-session-close",
						fmt.Sprintf("PeersForService(s%d)=%v but the peers offered one of its prefixes are %v (a reported peer has no live session)", s, o.Peers[s], want))
				} else {
					fail("bgp-peers-for-service-differs", fmt.Sprintf("PeersForService(s%d)=%v, peers offered one of its prefixes: %v", s, o.Peers[s], want))
				}
			}
			if len(want) > 0 {
				out.Stat("services_with_peers", 1)
			}
		}
		// what is REPORTED: deliver the notifications to the real status reconciler (twice: its own write re-enqueues the
		// service) and compare the stored status with the sessions
		var keys []string
		for k := range changed {
			keys = append(keys, k)
		}
		sort.Strings(keys)
		changed = map[string]bool{}
		for pass := 0; pass < 2; pass++ {
			for _, k := range keys {
				parts := strings.SplitN(k, "/", 2)
				if _, err := statusRec.Reconcile(context.TODO(), reconcile.Request{NamespacedName: types.NamespacedName{Namespace: parts[0], Name: parts[1]}}); err != nil {
					panic(err)
				}
			}
		}
		for s := 0; s < 4; s++ {
			stored, n := vbStoredStatus(statusClient, s)
			offered := []int{}
			if ev, ok := w.svcs[s]; ok {
				mine := map[string]bool{}
				one := &vbWorld{svcs: map[int]vbEv{s: ev}}
				for _, q := range []int{0, 1, 2, 9} {
					for _, a := range vbIntended(one, q) {
						mine[vbPfxKey(a)] = true
					}
				}
				for pn, got := range o.Sess {
					for _, a := range got {
						if mine[vbPfxKey(a)] {
							offered = append(offered, pn)
							break
						}
					}
				}
			}
			sort.Ints(offered)
			out.Stat("status_checks", 1)
			if len(stored) > 1 {
				out.Stat("status_with_several_peers", 1)
			}
			if n > 1 || (len(offered) == 0) != (stored == nil) || (stored != nil && fmt.Sprint(stored) != fmt.Sprint(offered)) {
				fail("bgp-status-differs-from-sessions",
					fmt.Sprintf("ServiceBGPStatus of s%d on this node reports peers %v (%d resources); the peers whose session holds one of its prefixes are %v", s, stored, n, offered))
			}
		}
		// sessions closed by this event
		if e.Op == "node" || e.Op == "cfg" {
			for _, s := range sm.sessions {
				if s.closed && s.sets >= 0 {
					s.sets = -1
					out.Stat("sessions_closed_by_"+e.Op, 1)
				}
			}
		}
	}
	shared := map[string]int{}
	for _, ev := range w.svcs {
		one := &vbWorld{svcs: map[int]vbEv{0: ev}}
		seen := map[string]bool{}
		for _, q := range []int{0, 1, 2} {
			for _, a := range vbIntended(one, q) {
				seen[vbPfxKey(a)] = true
			}
		}
		for k := range seen {
			shared[k]++
		}
	}
	for _, n := range shared {
		if n > 1 {
			out.Stat("final_prefix_shared_by_services", 1)
		}
	}
	out.Stat("histories", 1)
	out.Stat("events", len(h))
	out.Case(id, kind, cCtor("mk_bcase", cNi(id), cNi(0), cListN([]int{0, 1, 2, 9}), cList(steps)), h)
}



// ---------------------------------------------------------------- session parameters follow the configuration
// TestVerifBgpSessParams (C05 / C15): successive SetConfig calls on the real bgpController that
// change exactly one field of one peer at a time (every field of config.Peer), for the four ways
// a password reaches a session (native, frr, frr-k8s with secret pass-through, frr-k8s converting
// the secret).  After each SetConfig: every peer selected for this node has exactly one live session
// and the arguments that session was created with equal the CURRENT peer configuration; a peer
// not selected has none.

type vbPCfg struct {
	Name      string   `json:"name"`
	MyASN     uint32   `json:"my_asn"`
	ASN       uint32   `json:"asn"`
	DynASN    string   `json:"dyn_asn"`
	Addr      string   `json:"addr"`
	Iface     string   `json:"iface"`
	Src       string   `json:"src"`
	Port      uint16   `json:"port"`
	Hold      int      `json:"hold"` // seconds, 0 = nil
	Keep      int      `json:"keep"`
	Connect   int      `json:"connect"`
	RouterID  string   `json:"router_id"`
	Sels      []string `json:"sels"`
	Password  string   `json:"password"`
	SecretPw  string   `json:"secret_password"`
	RefName   string   `json:"ref_name"`
	RefNS     string   `json:"ref_ns"`
	BFD       string   `json:"bfd"`
	GR        bool     `json:"graceful_restart"`
	MultiHop  bool     `json:"multihop"`
	VRF       string   `json:"vrf"`
	DisableMP bool     `json:"disable_mp"`
}

func vbDur(sec int) *time.Duration {
	if sec == 0 {
		return nil
	}
	d := time.Duration(sec) * time.Second
	return &d
}

func vbBuildPCfg(p vbPCfg) *config.Peer {
	c := &config.Peer{Name: p.Name, MyASN: p.MyASN, ASN: p.ASN, DynamicASN: p.DynASN, Iface: p.Iface, Port: p.Port,
		HoldTime: vbDur(p.Hold), KeepaliveTime: vbDur(p.Keep), ConnectTime: vbDur(p.Connect),
		Password: p.Password, SecretPassword: p.SecretPw, BFDProfile: p.BFD, EnableGracefulRestart: p.GR,
		EBGPMultiHop: p.MultiHop, VRF: p.VRF, DisableMP: p.DisableMP}
	c.PasswordRef.Name, c.PasswordRef.Namespace = p.RefName, p.RefNS
	if p.Addr != "" {
		c.Addr = net.ParseIP(p.Addr)
	}
	if p.Src != "" {
		c.SrcAddr = net.ParseIP(p.Src)
	}
	if p.RouterID != "" {
		c.RouterID = net.ParseIP(p.RouterID)
	}
	for _, sel := range p.Sels {
		ps, err := labels.Parse(sel)
		if err != nil {
			panic(err)
		}
		c.NodeSelectors = append(c.NodeSelectors, ps)
	}
	return c
}

// one-field changes; each returns the name of the field it changed
var vbPMutations = []func(p *vbPCfg, r *rand.Rand) string{
	func(p *vbPCfg, r *rand.Rand) string { p.MyASN += 1; return "MyASN" },
	func(p *vbPCfg, r *rand.Rand) string { p.ASN += 1; return "ASN" },
	func(p *vbPCfg, r *rand.Rand) string {
		if p.DynASN == "" {
			p.DynASN = "external"
		} else if p.DynASN == "external" {
			p.DynASN = "internal"
		} else {
			p.DynASN = ""
		}
		return "DynamicASN"
	},
	func(p *vbPCfg, r *rand.Rand) string {
		if p.Addr == "" {
			p.Addr, p.Iface = "10.9.1.9", ""
			return "Addr/Iface"
		}
		p.Addr = fmt.Sprintf("10.9.%d.%d", 1+r.Intn(3), 1+r.Intn(200))
		return "Addr"
	},
	func(p *vbPCfg, r *rand.Rand) string {
		if p.Iface == "" {
			p.Iface, p.Addr = "eth1", ""
		} else {
			p.Iface = p.Iface + "x"
		}
		return "Iface"
	},
	func(p *vbPCfg, r *rand.Rand) string {
		if p.Src == "" {
			p.Src = "10.8.0.1"
		} else if p.Src == "10.8.0.1" {
			p.Src = "10.8.0.2"
		} else {
			p.Src = ""
		}
		return "SrcAddr"
	},
	func(p *vbPCfg, r *rand.Rand) string { p.Port = 179 + uint16(r.Intn(3)) + (p.Port%2)*7; return "Port" },
	func(p *vbPCfg, r *rand.Rand) string { p.Hold = (p.Hold + 30) % 120; return "HoldTime" },
	func(p *vbPCfg, r *rand.Rand) string { p.Keep = (p.Keep + 10) % 40; return "KeepaliveTime" },
	func(p *vbPCfg, r *rand.Rand) string { p.Connect = (p.Connect + 5) % 20; return "ConnectTime" },
	func(p *vbPCfg, r *rand.Rand) string {
		if p.RouterID == "" {
			p.RouterID = "10.0.0.1"
		} else if p.RouterID == "10.0.0.1" {
			p.RouterID = "10.0.0.2"
		} else {
			p.RouterID = ""
		}
		return "RouterID"
	},
	func(p *vbPCfg, r *rand.Rand) string {
		p.Sels = [][]string{{}, {"k0=v0"}, {"k0=v1"}, {"k1=v0", "k0=v0"}, {"k0 in (v0,v1)"}}[r.Intn(5)]
		return "NodeSelectors"
	},
	func(p *vbPCfg, r *rand.Rand) string { // plain password (exclusive with the secret)
		p.SecretPw, p.RefName, p.RefNS = "", "", ""
		p.Password = []string{"", "pw-a", "pw-b"}[r.Intn(3)]
		return "Password"
	},
	func(p *vbPCfg, r *rand.Rand) string { // the secret's CONTENT changes
		p.Password = ""
		if p.RefName == "" {
			p.RefName, p.RefNS = "bgp-secret", "metallb-system"
		}
		if p.SecretPw == "s3cret" {
			p.SecretPw = "other"
		} else {
			p.SecretPw = "s3cret"
		}
		return "SecretPassword"
	},
	func(p *vbPCfg, r *rand.Rand) string { // only the secret's NAME changes (same content)
		p.Password = ""
		if p.SecretPw == "" {
			p.SecretPw = "s3cret"
		}
		if p.RefNS == "" {
			p.RefNS = "metallb-system"
		}
		if p.RefName == "bgp-secret" {
			p.RefName = "bgp-secret-renamed"
		} else {
			p.RefName = "bgp-secret"
		}
		return "PasswordRef.Name"
	},
	func(p *vbPCfg, r *rand.Rand) string { // only the secret's NAMESPACE changes (same content)
		p.Password = ""
		if p.SecretPw == "" {
			p.SecretPw = "s3cret"
		}
		if p.RefName == "" {
			p.RefName = "bgp-secret"
		}
		if p.RefNS == "metallb-system" {
			p.RefNS = "other-ns"
		} else {
			p.RefNS = "metallb-system"
		}
		return "PasswordRef.Namespace"
	},
	func(p *vbPCfg, r *rand.Rand) string {
		if p.BFD == "" {
			p.BFD = "bfd-a"
		} else if p.BFD == "bfd-a" {
			p.BFD = "bfd-b"
		} else {
			p.BFD = ""
		}
		return "BFDProfile"
	},
	func(p *vbPCfg, r *rand.Rand) string { p.GR = !p.GR; return "EnableGracefulRestart" },
	func(p *vbPCfg, r *rand.Rand) string { p.MultiHop = !p.MultiHop; return "EBGPMultiHop" },
	func(p *vbPCfg, r *rand.Rand) string {
		if p.VRF == "" {
			p.VRF = "red"
		} else if p.VRF == "red" {
			p.VRF = "blue"
		} else {
			p.VRF = ""
		}
		return "VRF"
	},
	func(p *vbPCfg, r *rand.Rand) string { p.DisableMP = !p.DisableMP; return "DisableMP" },
}

type vbPMode struct {
	Name      string
	Type      bgpImplementation
	Namespace string // != FRRK8sNamespace ("frr-k8s-system") => the secret is converted
}

var vbPModes = []vbPMode{
	{"native", bgpNative, "metallb-system"},
	{"frr", bgpFrr, "metallb-system"},
	{"frr-k8s-pass-through", bgpFrrK8s, "frr-k8s-system"},
	{"frr-k8s-convert", bgpFrrK8s, "metallb-system"},
}

// the session arguments the statements prescribe for a peer configuration
func vbWantParams(p vbPCfg, m vbPMode) bgp.SessionParameters {
	c := vbBuildPCfg(p)
	w := bgp.SessionParameters{PeerPort: c.Port, PeerInterface: c.Iface, SourceAddress: c.SrcAddr, MyASN: c.MyASN, RouterID: c.RouterID,
		PeerASN: c.ASN, DynamicASN: c.DynamicASN, HoldTime: c.HoldTime, KeepAliveTime: c.KeepaliveTime, ConnectTime: c.ConnectTime,
		CurrentNode: vbNodeNames[0], BFDProfile: c.BFDProfile, GracefulRestart: c.EnableGracefulRestart, EBGPMultiHop: c.EBGPMultiHop,
		SessionName: c.Name, VRFName: c.VRF, DisableMP: c.DisableMP}
	if c.Addr != nil {
		w.PeerAddress = c.Addr.String()
	}
	// either the password or the secret reference, never both: only frr-k8s with pass-through hands the
	// reference on; every other mode gets the clear-text password (the peer's own or the secret's)
	if m.Name == "frr-k8s-pass-through" {
		w.Password = p.Password
		w.PasswordRef.Name, w.PasswordRef.Namespace = p.RefName, p.RefNS
	} else {
		w.Password = p.Password
		if p.SecretPw != "" {
			w.Password = p.SecretPw
		}
	}
	return w
}

func vbParamsJSON(a bgp.SessionParameters) string {
	d := func(x *time.Duration) string {
		if x == nil {
			return "nil"
		}
		return x.String()
	}
	b, _ := json.Marshal(map[string]any{"addr": a.PeerAddress, "port": a.PeerPort, "iface": a.PeerInterface, "src": a.SourceAddress.String(),
		"my_asn": a.MyASN, "router_id": a.RouterID.String(), "asn": a.PeerASN, "dyn_asn": a.DynamicASN, "hold": d(a.HoldTime), "keep": d(a.KeepAliveTime),
		"connect": d(a.ConnectTime), "password": a.Password, "ref": a.PasswordRef.Namespace + "/" + a.PasswordRef.Name, "node": a.CurrentNode,
		"bfd": a.BFDProfile, "gr": a.GracefulRestart, "multihop": a.EBGPMultiHop, "vrf": a.VRFName, "name": a.SessionName, "disable_mp": a.DisableMP})
	return string(b)
}

func vbSelectedFor(p vbPCfg, nodeLabels map[string]string) bool {
	if len(p.Sels) == 0 {
		return true
	}
	for _, s := range p.Sels {
		sel, _ := labels.Parse(s)
		if sel.Matches(labels.Set(nodeLabels)) {
			return true
		}
	}
	return false
}

func vbRunSessParams(out *vOut, m vbPMode, steps int, r *rand.Rand, script []int) {
	sm := &vbSM{}
	old := newBGP
	newBGP = func(controllerConfig) bgp.SessionManager { return sm }
	ctl, err := newController(controllerConfig{MyNode: vbNodeNames[0], Namespace: m.Namespace, FRRK8sNamespace: "frr-k8s-system",
		DisableLayer2: true, bgpType: m.Type, Logger: log.NewNopLogger(), BGPAdsChangedCallback: func(string) {}})
	newBGP = old
	if err != nil {
		panic(err)
	}
	c := ctl.protocolHandlers[config.BGP].(*bgpController)
	lg := log.NewNopLogger()
	nodeLabels := map[string]string{"k0": "v0"}
	c.SetNode(lg, &v1.Node{ObjectMeta: metav1.ObjectMeta{Name: vbNodeNames[0], Labels: nodeLabels}})
	peers := []vbPCfg{
		{Name: "peer0", MyASN: 64512, ASN: 64513, Addr: "10.9.0.1", Port: 179},
		{Name: "peer1", MyASN: 64512, ASN: 64512, Addr: "10.9.0.2", Port: 179, SecretPw: "s3cret", RefName: "bgp-secret", RefNS: "metallb-system", Sels: []string{"k0=v0"}},
		{Name: "peer2", MyASN: 64512, ASN: 64514, Iface: "eth0", Port: 179, Password: "pw-a", Hold: 90, Keep: 30},
	}
	var log_ []map[string]any
	failed := false
	for step := 0; step <= steps; step++ {
		what := "initial"
		if step > 0 {
			pi := r.Intn(len(peers))
			mi := r.Intn(len(vbPMutations))
			if step-1 < len(script) {
				pi, mi = 1, script[step-1]
			}
			switch x := r.Intn(20); {
			case x == 0 && step-1 >= len(script):
				what = "nothing changes"
			case x == 1 && step-1 >= len(script) && len(peers) > 1:
				what = "peer " + peers[pi].Name + " removed"
				peers = append(append([]vbPCfg{}, peers[:pi]...), peers[pi+1:]...)
			default:
				q := peers[pi]
				q.Sels = append([]string{}, q.Sels...)
				what = "peer " + q.Name + ": " + vbPMutations[mi](&q, r)
				peers = append(append(append([]vbPCfg{}, peers[:pi]...), q), peers[pi+1:]...)
				out.Stat("sessparams_field:"+strings.SplitN(what, ": ", 2)[1], 1)
			}
		}
		cfg := &config.Config{Peers: map[string]*config.Peer{}}
		for _, p := range peers {
			cfg.Peers[p.Name] = vbBuildPCfg(p) // fresh objects on every call
		}
		if err := c.SetConfig(lg, cfg); err != nil {
			panic(err)
		}
		log_ = append(log_, map[string]any{"step": step, "change": what, "peers": append([]vbPCfg{}, peers...)})
		out.Stat("sessparams_setconfig", 1)
		// ---- oracle
		liveBy := map[string][]*vbSess{}
		for _, s := range sm.sessions {
			if !s.closed {
				liveBy[s.name] = append(liveBy[s.name], s)
			}
		}
		fail := func(sig, msg string) {
			if !failed {
				failed = true
				out.Fail(sig, fmt.Sprintf("%s, step %d (%s): %s", m.Name, step, what, msg), map[string]any{"mode": m.Name, "sessparams_history": log_})
			}
		}
		names := map[string]bool{}
		for _, p := range peers {
			names[p.Name] = true
			sel := vbSelectedFor(p, nodeLabels)
			ls := liveBy[p.Name]
			if sel {
				out.Stat("gen_sessparams_selected_peers", 1)
			}
			if !sel {
				if len(ls) != 0 {
					fail("bgp-session-liveness", fmt.Sprintf("peer %s is not selected for this node but has %d live sessions", p.Name, len(ls)))
				}
				continue
			}
			if len(ls) != 1 {
				fail("bgp-session-liveness", fmt.Sprintf("peer %s is selected for this node and has %d live sessions", p.Name, len(ls)))
				continue
			}
			got, want := vbParamsJSON(ls[0].params), vbParamsJSON(vbWantParams(p, m))
			out.Stat("sessparams_checks", 1)
			if got != want {
				var gm, wm map[string]any
				json.Unmarshal([]byte(got), &gm)
				json.Unmarshal([]byte(want), &wm)
				var diff []string
				for k := range wm {
					if fmt.Sprint(gm[k]) != fmt.Sprint(wm[k]) {
						diff = append(diff, fmt.Sprintf("%s: session %v, configuration %v", k, gm[k], wm[k]))
					}
				}
				sort.Strings(diff)
				fail("bgp-session-params-stale-after-setconfig",
					fmt.Sprintf("the live session of peer %s was not created from the current peer configuration (%s)", p.Name, strings.Join(diff, "; ")))
			}
		}
		for nm, ls := range liveBy {
			if !names[nm] && len(ls) > 0 {
				fail("bgp-session-for-unconfigured-peer", fmt.Sprintf("live session for peer %s which is not configured", nm))
			}
		}
	}
}

func TestVerifBgpSessParams(t *testing.T) {
	out := vOpen()
	defer out.Close()
	r := vRand()
	n := vN(6)
	for _, m := range vbPModes {
		// every one-field change once, on the peer authenticated through a secret
		all := make([]int, len(vbPMutations))
		for i := range all {
			all[i] = i
		}
		vbRunSessParams(out, m, len(all), r, all)
		// only the secret reference moves, back and forth, content identical
		vbRunSessParams(out, m, 4, r, []int{14, 15, 14, 15})
		for k := 0; k < n; k++ {
			vbRunSessParams(out, m, 25, r, nil)
		}
	}
}

// ---------------------------------------------------------------- C05 through the whole controller
// speaker/main.go decides which pool's advertisements a Service's routes are built from (poolFor):
// histories of configuration / service events on the real controller with pools that are
// regrouped (a dual-stack pool split into a v4 and a v6 pool with different advertisements),
// single- and dual-stack services, also with the two addresses in different pools.

type vbWPool struct {
	CIDRs []string `json:"cidrs"`
	BGP   []vbBAdv `json:"bgp"`
}
type vbWCfg struct {
	Pools []vbWPool `json:"pools"`
	Peers []vbPeer  `json:"peers"`
}
type vbWEv struct {
	Op  string   `json:"op"` // cfg set del
	Svc int      `json:"svc,omitempty"`
	IPs []string `json:"ips,omitempty"`
	Cfg *vbWCfg  `json:"cfg,omitempty"`
}

var vbWIPs = [][]string{
	{"10.20.30.1"}, {"fc00:30::1"}, {"10.20.31.1"},
	{"10.20.30.1", "fc00:30::1"}, {"fc00:30::2", "10.20.30.2"}, // one pool, or two after the split
	{"10.20.30.2", "fc00:31::1"},                               // always two pools
	{"10.20.31.1", "fc00:31::1"},
}

func vbWGenCfg(r *rand.Rand) *vbWCfg {
	c := &vbWCfg{}
	for i := 0; i < 3; i++ {
		if i == 0 || r.Intn(3) != 0 {
			c.Peers = append(c.Peers, vbPeer{Name: i, Sels: [][][2]int{}})
		}
	}
	var groups [][]string
	if r.Intn(2) == 0 {
		groups = append(groups, []string{"10.20.30.0/24", "fc00:30::/64"})
	} else { // the dual-stack pool split into a v4 pool and a v6 pool
		groups = append(groups, []string{"10.20.30.0/24"}, []string{"fc00:30::/64"})
	}
	if r.Intn(4) != 0 {
		groups = append(groups, []string{"10.20.31.0/24", "fc00:31::/64"})
	}
	for pi, g := range groups {
		pl := vbWPool{CIDRs: g, BGP: vbGenBAdvs(r)}
		for ai := range pl.BGP { // every advertisement recognisable by its local preference; mostly selecting this node
			pl.BGP[ai].LP = 10*(pi+1) + ai
			if r.Intn(4) != 0 {
				pl.BGP[ai].Nodes = []int{0}
				pl.BGP[ai].NodeFalse = []int{}
			}
		}
		c.Pools = append(c.Pools, pl)
	}
	return c
}

func vbWGenHistory(r *rand.Rand) []vbWEv {
	h := []vbWEv{{Op: "cfg", Cfg: vbWGenCfg(r)}}
	for n := 5 + r.Intn(9); n > 0; n-- {
		x := r.Intn(100)
		switch {
		case x < 25:
			h = append(h, vbWEv{Op: "cfg", Cfg: vbWGenCfg(r)})
		case x < 38:
			h = append(h, vbWEv{Op: "del", Svc: r.Intn(3)})
		default:
			h = append(h, vbWEv{Op: "set", Svc: r.Intn(3), IPs: vbWIPs[r.Intn(len(vbWIPs))]})
		}
	}
	return h
}

func vbWBuildCfg(c *vbWCfg) *config.Config {
	cfg := &config.Config{Peers: map[string]*config.Peer{}, Pools: &config.Pools{ByName: map[string]*config.Pool{}}}
	for _, p := range c.Peers {
		cfg.Peers[vbPeerName(p.Name)] = vbBuildPeer(p)
	}
	for i, pl := range c.Pools {
		p := &config.Pool{Name: fmt.Sprintf("pool%d", i)}
		for _, cs := range pl.CIDRs {
			_, n, err := net.ParseCIDR(cs)
			if err != nil {
				panic(err)
			}
			p.CIDR = append(p.CIDR, n)
		}
		for _, a := range pl.BGP {
			p.BGPAdvertisements = append(p.BGPAdvertisements, vbBuildBAdv(a))
		}
		cfg.Pools.ByName[p.Name] = p
	}
	return cfg
}

func vbWPoolOf(c *vbWCfg, ip string) int {
	x := net.ParseIP(ip)
	for i, pl := range c.Pools {
		for _, cs := range pl.CIDRs {
			_, n, _ := net.ParseCIDR(cs)
			if n.Contains(x) {
				return i
			}
		}
	}
	return -1
}

// the routes the advertisements of pool pi produce for address ip towards peer p
func vbWRoutes(c *vbWCfg, pi int, ip string, p int) map[string]vbAd {
	ev := vbEv{Op: "set", IPs: []string{ip}, Advs: c.Pools[pi].BGP}
	return vbIntended(&vbWorld{svcs: map[int]vbEv{0: ev}}, p)
}

func vbRunWhole(out *vOut, kind string, h []vbWEv) {
	sm := &vbSM{}
	ctl := vbNewController(sm, false, true)
	lg := log.NewNopLogger()
	T := true
	eps := vbBuildEps(vbLayout{Eps: [][]vbEP{{{Ready: &T, Node: 0, Addrs: []int{1}}}}})
	K := map[int][]string{}
	var cur *vbWCfg
	setSvc := func(n int) {
		svc := vbSvc(false, K[n]...)
		svc.Name = fmt.Sprintf("s%d", n)
		ctl.SetBalancer(lg, vbSvcName(n), svc, eps)
	}
	failed := false
	for i, e := range h {
		switch e.Op {
		case "cfg":
			built := vbWBuildCfg(e.Cfg)
			st := ctl.SetConfig(lg, built)
			if ctl.config == built {
				cur = e.Cfg
			}
			if st == 2 { // SyncStateReprocessAll
				var names []int
				for n := range K {
					names = append(names, n)
				}
				sort.Ints(names)
				for _, n := range names {
					setSvc(n)
				}
			}
			out.Stat("whole_cfg", 1)
		case "set":
			K[e.Svc] = e.IPs
			setSvc(e.Svc)
			out.Stat("whole_set", 1)
		case "del":
			delete(K, e.Svc)
			ctl.SetBalancer(lg, vbSvcName(e.Svc), nil, nil)
			out.Stat("whole_del", 1)
		}
		if cur == nil {
			continue
		}
		live, _ := sm.live()
		got := map[int]map[string]vbAd{}
		for nm, s := range live {
			m := map[string]vbAd{}
			for _, a := range vbAdSet(s.ads) {
				m[a.key()] = a
			}
			got[vbPeerIdx(nm)] = m
		}
		fail := func(sig, what string) {
			if !failed {
				failed = true
				out.Fail(sig, fmt.Sprintf("whole controller, after event %d (%s): %s", i, e.Op, what), map[string]any{"whole_history": h[:i+1]})
			}
		}
		for p, ads := range got {
			// soundness: every offered route is produced by an advertisement of the pool of ITS address
			allowed := map[string]bool{}
			for _, ips := range K {
				for _, ip := range ips {
					if pi := vbWPoolOf(cur, ip); pi >= 0 {
						for k := range vbWRoutes(cur, pi, ip, p) {
							allowed[k] = true
						}
					}
				}
			}
			for k, a := range ads {
				out.Stat("whole_routes_checked", 1)
				if !allowed[k] {
					fail("bgp-route-not-produced-by-the-pool-of-its-address",
						fmt.Sprintf("peer %d is offered %s, which no advertisement of the pool containing that address produces", p, vbAdJSON(a)))
				}
			}
			// completeness: a Service whose addresses all lie in one pool is offered with that pool's advertisements
			for n, ips := range K {
				pi := vbWPoolOf(cur, ips[0])
				one := pi >= 0
				for _, ip := range ips {
					if vbWPoolOf(cur, ip) != pi {
						one = false
					}
				}
				if !one {
					if len(ips) == 2 && vbWPoolOf(cur, ips[0]) >= 0 && vbWPoolOf(cur, ips[1]) >= 0 {
						out.Stat("whole_dual_stack_across_pools", 1)
					}
					continue
				}
				for _, ip := range ips {
					for k, a := range vbWRoutes(cur, pi, ip, p) {
						if _, ok := ads[k]; !ok {
							fail("bgp-whole-controller-route-missing",
								fmt.Sprintf("service s%d (%v, pool %d): peer %d is not offered %s", n, ips, pi, p, vbAdJSON(a)))
						}
						out.Stat("whole_expected_routes", 1)
					}
				}
			}
		}
	}
	out.Stat("whole_histories", 1)
}

func vbAdJSON(a vbAd) string { b, _ := json.Marshal(a); return string(b) }

func TestVerifBgpAds(t *testing.T) {
	out := vOpen()
	defer out.Close()
	r := vRand()
	n := vN(60)
	id := 0
	// corpus: F12 witness first (node relabel closes a session; PeersForService must follow)
	f12 := []vbEv{
		{Op: "cfg", Peers: []vbPeer{{Name: 0, Sels: [][][2]int{{{0, 0}}}}, {Name: 1, Sels: [][][2]int{}}}},
		{Op: "node", Node: 0, Labels: [][2]int{{0, 0}}},
		{Op: "set", Svc: 0, IPs: []string{"10.20.30.1"}, Advs: []vbBAdv{{Agg4: 32, Agg6: 128, Nodes: []int{0}}}},
		{Op: "node", Node: 0, Labels: [][2]int{{0, 1}}},
		{Op: "cfg", Peers: []vbPeer{{Name: 0, Sels: [][][2]int{{{0, 0}}}}}},
	}
	id++
	vbRunHistory(out, id, "corpus-f12", f12)
	for _, p := range vbCorpus("C05") {
		var h []vbEv
		if json.Unmarshal(p, &h) == nil && len(h) > 0 {
			id++
			vbRunHistory(out, id, "corpus", h)
		}
	}
	if rp := os.Getenv("VERIF_REPLAY"); rp != "" {
		if b, err := os.ReadFile(rp); err == nil {
			var x struct {
				Replay struct {
					History []vbEv `json:"history"`
				} `json:"replay"`
			}
			if json.Unmarshal(b, &x) == nil && len(x.Replay.History) > 0 {
				id++
				vbRunHistory(out, id, "replay", x.Replay.History)
			}
		}
	}
	for k := 0; k < n; k++ {
		id++
		vbRunHistory(out, id, "random", vbGenHistory(r))
	}
	// ---- the same property through speaker/main.go (pool attribution)
	one := func(lp int, peers ...int) []vbBAdv {
		return []vbBAdv{{Agg4: 32, Agg6: 128, LP: lp, Comms: []int{}, Nodes: []int{0}, NodeFalse: []int{}, Peers: peers}}
	}
	split := &vbWCfg{Peers: []vbPeer{{Name: 0, Sels: [][][2]int{}}, {Name: 1, Sels: [][][2]int{}}},
		Pools: []vbWPool{{CIDRs: []string{"10.20.30.0/24"}, BGP: one(11, 0)}, {CIDRs: []string{"fc00:30::/64"}, BGP: one(21, 1)}}}
	dual := &vbWCfg{Peers: split.Peers, Pools: []vbWPool{{CIDRs: []string{"10.20.30.0/24", "fc00:30::/64"}, BGP: one(11)}}}
	vbRunWhole(out, "corpus-dual-stack-pool-split", []vbWEv{
		{Op: "cfg", Cfg: dual}, {Op: "set", Svc: 0, IPs: []string{"10.20.30.1", "fc00:30::1"}},
		{Op: "cfg", Cfg: split}, {Op: "set", Svc: 1, IPs: []string{"fc00:30::2", "10.20.30.2"}}, {Op: "set", Svc: 2, IPs: []string{"10.20.30.1"}}})
	if rp := os.Getenv("VERIF_REPLAY"); rp != "" {
		if b, err := os.ReadFile(rp); err == nil {
			var x struct {
				Replay struct {
					Whole []vbWEv `json:"whole_history"`
				} `json:"replay"`
			}
			if json.Unmarshal(b, &x) == nil && len(x.Replay.Whole) > 0 {
				vbRunWhole(out, "replay", x.Replay.Whole)
			}
		}
	}
	for k := 0; k < n; k++ {
		vbRunWhole(out, "random", vbWGenHistory(r))
	}
}
