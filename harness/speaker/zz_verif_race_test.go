//go:build verif

package main

// Runtime part of C20 for the speaker: service / config / node events are
// delivered from several goroutines through the REAL k8s.Listener wrappers
// (or, when VERIF_RAW_HANDLERS names a callback, straight to the callback, the
// way internal/k8s/k8s.go would deliver them had it registered the callback
// instead of the wrapper) while other goroutines call the status fetchers
// GetStatus / PeersForService and CONSUME the results exactly as
// Layer2StatusReconciler / ServiceBGPStatusReconciler do.  Run under
// `go test -race`.  The wrappers' acquisition order is recorded inside the
// critical section; afterwards the same events are replayed one at a time in
// that order on a fresh controller and the final states are compared.

import (
	"fmt"
	"math/rand"
	"net"
	"os"
	"reflect"
	"sort"
	"strings"
	"sync"
	"sync/atomic"
	"testing"
	"time"

	"github.com/go-kit/log"
	v1 "k8s.io/api/core/v1"
	discovery "k8s.io/api/discovery/v1"
	metav1 "k8s.io/apimachinery/pkg/apis/meta/v1"
	"k8s.io/apimachinery/pkg/labels"
	"k8s.io/apimachinery/pkg/types"
	"k8s.io/apimachinery/pkg/util/sets"
	"k8s.io/utils/ptr"

	"go.universe.tf/metallb/internal/bgp"
	"go.universe.tf/metallb/internal/config"
	"go.universe.tf/metallb/internal/k8s"
	"go.universe.tf/metallb/internal/k8s/controllers"
	"go.universe.tf/metallb/internal/layer2"
)

const vrNode = "pandora"

type vrClient struct{}

func (vrClient) UpdateStatus(*v1.Service) error                     { return nil }
func (vrClient) Infof(*v1.Service, string, string, ...interface{})  {}
func (vrClient) Errorf(*v1.Service, string, string, ...interface{}) {}

type vrEvent struct {
	ID   int    `json:"id"`
	Kind string `json:"kind"` // service | config | node
	What string `json:"what"`
	name string
	svc  *v1.Service
	eps  []discovery.EndpointSlice
	cfg  *config.Config
	node *v1.Node
}

var vrSvcNames = []string{"ns/a", "ns/b", "other/c", "ns/d"}
var vrSvcIPs = []string{"10.20.30.1", "10.20.30.2", "10.20.40.1", "10.20.40.7"}

func vrIPNet(s string) *net.IPNet {
	_, n, err := net.ParseCIDR(s)
	if err != nil {
		panic(err)
	}
	return n
}

func vrConfig(variant int) *config.Config {
	l2 := func(all bool, ifs ...string) []*config.L2Advertisement {
		return []*config.L2Advertisement{{Nodes: map[string]bool{vrNode: true}, AllInterfaces: all, Interfaces: ifs}}
	}
	bgpAdv := func(lp uint32) []*config.BGPAdvertisement {
		return []*config.BGPAdvertisement{{AggregationLength: 32, AggregationLengthV6: 128, LocalPref: lp, Nodes: map[string]bool{vrNode: true}}}
	}
	peers := map[string]*config.Peer{
		"peer1": {Name: "peer1", Addr: net.ParseIP("1.2.3.4"), NodeSelectors: []labels.Selector{labels.Everything()}},
	}
	if variant%2 == 1 {
		peers["peer2"] = &config.Peer{Name: "peer2", Addr: net.ParseIP("1.2.3.5"), NodeSelectors: []labels.Selector{labels.Everything()}}
	}
	var p1, p2 []*config.L2Advertisement
	switch variant % 3 {
	case 0:
		p1, p2 = l2(true), l2(false, "eth0")
	case 1:
		p1, p2 = l2(false, "eth0", "eth1"), l2(false, "eth1")
	default:
		p1, p2 = l2(false, "eth1"), l2(true)
	}
	return &config.Config{
		Peers: peers,
		Pools: &config.Pools{ByName: map[string]*config.Pool{
			"pool1": {Name: "pool1", CIDR: []*net.IPNet{vrIPNet("10.20.30.0/24")}, BGPAdvertisements: bgpAdv(uint32(100 + variant%2)), L2Advertisements: p1},
			"pool2": {Name: "pool2", CIDR: []*net.IPNet{vrIPNet("10.20.40.0/24")}, BGPAdvertisements: bgpAdv(200), L2Advertisements: p2},
		}},
	}
}

func vrService(i int, ip string) (*v1.Service, []discovery.EndpointSlice) {
	parts := strings.Split(vrSvcNames[i], "/")
	svc := &v1.Service{
		ObjectMeta: metav1.ObjectMeta{Namespace: parts[0], Name: parts[1]},
		Spec:       v1.ServiceSpec{Type: "LoadBalancer", ExternalTrafficPolicy: "Cluster"},
	}
	if ip != "" {
		svc.Status = v1.ServiceStatus{LoadBalancer: v1.LoadBalancerStatus{Ingress: []v1.LoadBalancerIngress{{IP: ip}}}}
	}
	eps := []discovery.EndpointSlice{{Endpoints: []discovery.Endpoint{{
		Addresses: []string{"2.3.4.5"}, NodeName: ptr.To(vrNode), Conditions: discovery.EndpointConditions{Ready: ptr.To(true)}}}}}
	return svc, eps
}

// the events are a pure function of the seed: the concurrent run and the serial
// replay get structurally equal but distinct objects
func vrEvents(seed int64, n int) []vrEvent {
	r := rand.New(rand.NewSource(seed))
	var evs []vrEvent
	add := func(e vrEvent) {
		e.ID = len(evs)
		switch e.Kind {
		case "service": // the handlers ignore the slice's object name
			if len(e.eps) == 0 {
				e.eps = []discovery.EndpointSlice{{}}
			}
			e.eps[0].Name = fmt.Sprint(e.ID)
		case "node":
			e.node.Annotations = map[string]string{"verif/id": fmt.Sprint(e.ID)}
		}
		evs = append(evs, e)
	}
	add(vrEvent{Kind: "config", What: "config 0", cfg: vrConfig(0)})
	add(vrEvent{Kind: "node", What: "node " + vrNode, node: &v1.Node{ObjectMeta: metav1.ObjectMeta{Name: vrNode}}})
	for len(evs) < n {
		switch x := r.Intn(20); {
		case x < 3:
			v := r.Intn(6)
			add(vrEvent{Kind: "config", What: fmt.Sprintf("config %d", v), cfg: vrConfig(v)})
		case x < 5:
			nd := &v1.Node{ObjectMeta: metav1.ObjectMeta{Name: vrNode, Labels: map[string]string{"rack": fmt.Sprint(r.Intn(2))}}}
			if r.Intn(3) == 0 {
				nd.Name = "other-node"
			}
			add(vrEvent{Kind: "node", What: "node " + nd.Name + " " + nd.Labels["rack"], node: nd})
		case x < 8:
			i := r.Intn(len(vrSvcNames))
			add(vrEvent{Kind: "service", What: "delete " + vrSvcNames[i], name: vrSvcNames[i]})
		default:
			i := r.Intn(len(vrSvcNames))
			ip := vrSvcIPs[i]
			if r.Intn(5) == 0 {
				ip = vrSvcIPs[(i+1)%len(vrSvcIPs)] // moved to another address (possibly shared)
			}
			svc, eps := vrService(i, ip)
			add(vrEvent{Kind: "service", What: "set " + vrSvcNames[i] + " " + ip, name: vrSvcNames[i], svc: svc, eps: eps})
		}
	}
	return evs
}

type vrSystem struct {
	eagerL2  func(types.NamespacedName) // when set: the status event is handed over synchronously (see TestVerifNotifySpeaker)
	eagerBGP func(string)
	c        *controller
	ann      *layer2.Announce
	bgp      *fakeBGP
	lst      *k8s.Listener
	cfgID    map[*config.Config]int
	mu       sync.Mutex
	order    []int // event ids in the order in which the handlers took effect
	l2evts   chan types.NamespacedName
	bgpevt   chan string
}

func (s *vrSystem) note(id int) {
	s.mu.Lock()
	s.order = append(s.order, id)
	s.mu.Unlock()
}

func vrAtoi(x string) int {
	n := 0
	fmt.Sscan(x, &n)
	return n
}

func vrNewSystem(t *testing.T, evs []vrEvent) *vrSystem {
	s := &vrSystem{l2evts: make(chan types.NamespacedName, 1<<14), bgpevt: make(chan string, 1<<14), cfgID: map[*config.Config]int{}}
	for _, e := range evs {
		if e.Kind == "config" {
			s.cfgID[e.cfg] = e.ID
		}
	}
	s.bgp = &fakeBGP{t: t}
	newBGP = s.bgp.NewSessionManager
	c, err := newController(controllerConfig{
		MyNode:        vrNode,
		Logger:        log.NewNopLogger(),
		DisableLayer2: true, // layer2.New would open real sockets; the layer-2 handler is wired below as newController does
		bgpType:       bgpNative,
		BGPAdsChangedCallback: func(k string) {
			if s.eagerBGP != nil {
				s.eagerBGP(k)
				return
			}
			select {
			case s.bgpevt <- k:
			default:
			}
		},
	})
	if err != nil {
		t.Fatalf("newController: %v", err)
	}
	c.client = vrClient{}
	s.ann = layer2.VerifNew(log.NewNopLogger(), []string{"eth0", "eth1"})
	c.protocolHandlers[config.Layer2] = &layer2Controller{
		announcer: s.ann,
		myNode:    vrNode,
		sList:     &fakeSpeakerList{speakers: map[string]bool{vrNode: true}},
		onStatusChange: func(nn types.NamespacedName) {
			if s.eagerL2 != nil {
				s.eagerL2(nn)
				return
			}
			select {
			case s.l2evts <- nn:
			default:
			}
		},
	}
	c.protocols = append(c.protocols, config.Layer2)
	// what newController installed as layer-2 status fetcher (with DisableLayer2 it reports nothing, but it
	// is the production function value: whatever it reads, it reads in the status reconcilers' goroutines,
	// outside the Listener mutex) is still CALLED by the consumers below, next to the announcer's GetStatus
	prodL2 := c.layer2StatusFetchFunc
	c.layer2StatusFetchFunc = func(nn types.NamespacedName) []layer2.IPAdvertisement {
		if prodL2 != nil {
			prodL2(nn)
		}
		return s.ann.GetStatus(nn)
	}
	s.c = c
	// the callbacks the speaker installs (speaker/main.go), each noting its event
	// id first — inside the Listener's critical section when delivered through a wrapper
	s.lst = &k8s.Listener{
		ServiceChanged: func(l log.Logger, name string, svc *v1.Service, eps []discovery.EndpointSlice) controllers.SyncState {
			s.note(vrAtoi(eps[0].Name))
			return c.SetBalancer(l, name, svc, eps)
		},
		ConfigChanged: func(l log.Logger, cfg *config.Config) controllers.SyncState {
			s.note(s.cfgID[cfg])
			return c.SetConfig(l, cfg)
		},
		NodeChanged: func(l log.Logger, n *v1.Node) controllers.SyncState {
			s.note(vrAtoi(n.Annotations["verif/id"]))
			return c.SetNode(l, n)
		},
	}
	return s
}

// deliver hands one event to the speaker the way the reconcilers do: through the
// Listener wrapper registered in internal/k8s/k8s.go — or through the raw
// callback if that is what k8s.go registers (VERIF_RAW_HANDLERS, from the translator)
func (s *vrSystem) deliver(e vrEvent, raw map[string]bool) {
	l := log.NewNopLogger()
	switch e.Kind {
	case "service":
		if raw["ServiceChanged"] {
			s.lst.ServiceChanged(l, e.name, e.svc, e.eps)
		} else {
			s.lst.ServiceHandler(l, e.name, e.svc, e.eps)
		}
	case "config":
		if raw["ConfigChanged"] {
			s.lst.ConfigChanged(l, e.cfg)
		} else {
			s.lst.ConfigHandler(l, e.cfg)
		}
	case "node":
		if raw["NodeChanged"] {
			s.lst.NodeChanged(l, e.node)
		} else {
			s.lst.NodeHandler(l, e.node)
		}
	}
}

// what Layer2StatusReconciler.Reconcile + buildDesiredStatus do with the fetcher's result
func vrConsumeL2(fetch controllers.L2StatusFetcher, nn types.NamespacedName) int {
	advs := fetch(nn)
	if len(advs) == 0 {
		return 0
	}
	n := 0
	adv := advs[0]
	if !adv.IsAllInterfaces() {
		for inf := range adv.GetInterfaces() {
			n += len(inf)
		}
	}
	return n + len(advs)
}

// what ServiceBGPStatusReconciler.Reconcile does with the fetcher's result
func vrConsumeBGP(fetch controllers.PeersForService, key string) int {
	peers := fetch(key)
	if peers.Len() == 0 {
		return 0
	}
	return len(sets.List(peers))
}

// vrPrivAt formats obj.<field>[k1][k2]... of an unexported map field, looked up by reflection so that
// a tree with another bookkeeping representation still compiles: when the field is absent or not a
// map with these key types the access is recorded in vrSkipped (-> stat whitebox_skipped:<field>) and
// the black-box part of the state (fetchers, session manager, announcer) remains.  A missing key
// formats as the zero value of the element type.
var vrSkipped sync.Map

func vrPrivAt(obj any, field string, keys ...any) string {
	v := reflect.ValueOf(obj)
	for v.Kind() == reflect.Pointer {
		v = v.Elem()
	}
	if v.Kind() != reflect.Struct {
		vrSkipped.Store(field, true)
		return "?"
	}
	f := v.FieldByName(field)
	if !f.IsValid() {
		vrSkipped.Store(field, true)
		return "?"
	}
	for _, k := range keys {
		kv := reflect.ValueOf(k)
		if f.Kind() != reflect.Map || !kv.Type().AssignableTo(f.Type().Key()) {
			vrSkipped.Store(field, true)
			return "?"
		}
		e := f.MapIndex(kv)
		if !e.IsValid() {
			e = reflect.Zero(f.Type().Elem())
		}
		f = e
	}
	return fmt.Sprintf("%v", f)
}

func vrReportSkipped(out interface{ Stat(string, int) }) {
	vrSkipped.Range(func(k, _ any) bool {
		out.Stat("whitebox_skipped:"+k.(string), 1)
		return true
	})
}

// projection of the final state the property speaks about
func (s *vrSystem) state() map[string]string {
	st := map[string]string{}
	for _, name := range vrSvcNames {
		parts := strings.Split(name, "/")
		var l2 []string
		for _, adv := range s.ann.GetStatus(types.NamespacedName{Namespace: parts[0], Name: parts[1]}) {
			l2 = append(l2, fmt.Sprintf("%s all=%v ifs=%v", adv.VerifIP(), adv.IsAllInterfaces(), sets.List(adv.GetInterfaces())))
		}
		sort.Strings(l2)
		st["l2 "+name] = strings.Join(l2, "; ")
		st["peers "+name] = strings.Join(sets.List(s.c.bgpPeersFetcher(name)), ",")
		st["announced "+name] = fmt.Sprintf("bgp=%s l2=%s ips=%s", vrPrivAt(s.c, "announced", config.BGP, name), vrPrivAt(s.c, "announced", config.Layer2, name), vrPrivAt(s.c, "svcIPs", name))
	}
	rc, _ := s.ann.VerifRefcnt() // absent on a tree with another representation: the black-box state below remains
	var ks []string
	for k, v := range rc {
		if v != 0 {
			ks = append(ks, fmt.Sprintf("%s=%d", k, v))
		}
	}
	sort.Strings(ks)
	st["refcnt"] = strings.Join(ks, ",")
	ads := s.bgp.sessionManager.Ads()
	var peers []string
	for p := range ads {
		peers = append(peers, p)
	}
	sort.Strings(peers)
	for _, p := range peers {
		var xs []string
		for _, a := range ads[p] {
			xs = append(xs, vrAdString(a))
		}
		sort.Strings(xs)
		st["session "+p] = strings.Join(xs, "; ")
	}
	return st
}

func vrAdString(a *bgp.Advertisement) string {
	return fmt.Sprintf("%s lp=%d comm=%v peers=%v", a.Prefix, a.LocalPref, a.Communities, a.Peers)
}

func vrRaw() map[string]bool {
	raw := map[string]bool{}
	for _, k := range strings.Split(os.Getenv("VERIF_RAW_HANDLERS"), ",") {
		if k != "" {
			raw[k] = true
		}
	}
	return raw
}

// vrPanicScenario: a handler PANICS once (e.g. an invariant panic deep in SetConfig); controller-runtime
// recovers the panic of a reconcile and the work queue delivers the next event.  Through the real
// k8s.Listener wrappers: after the recovered panic a second delivery — of ANY kind, they share the
// one mutex — must still be served (2 s watchdog).  A wrapper that unlocks by a plain statement after
// the call instead of a deferred one leaves the mutex held for ever.
func vrPanicScenario(out *vOut, raw map[string]bool) {
	l := log.NewNopLogger()
	kinds := []string{"ServiceChanged", "ConfigChanged", "NodeChanged", "PoolChanged"}
	for _, first := range kinds {
		if raw[first] {
			continue // registered without wrapper: reported by the registration obligation
		}
		armed := true
		cb := func() controllers.SyncState {
			if armed {
				armed = false
				panic("verif: handler panics on its first delivery")
			}
			return controllers.SyncStateSuccess
		}
		lst := &k8s.Listener{
			ServiceChanged: func(log.Logger, string, *v1.Service, []discovery.EndpointSlice) controllers.SyncState { return cb() },
			ConfigChanged:  func(log.Logger, *config.Config) controllers.SyncState { return cb() },
			NodeChanged:    func(log.Logger, *v1.Node) controllers.SyncState { return cb() },
			PoolChanged:    func(log.Logger, *config.Pools) controllers.SyncState { return cb() },
		}
		call := func(k string) {
			switch k {
			case "ServiceChanged":
				lst.ServiceHandler(l, "ns/a", nil, nil)
			case "ConfigChanged":
				lst.ConfigHandler(l, nil)
			case "NodeChanged":
				lst.NodeHandler(l, nil)
			case "PoolChanged":
				lst.PoolHandler(l, nil)
			}
		}
		func() { // what controller-runtime's reconcile wrapper does (RecoverPanic)
			defer func() { _ = recover() }()
			call(first)
		}()
		for _, second := range kinds {
			if raw[second] {
				continue
			}
			done := make(chan struct{})
			go func() { call(second); close(done) }()
			select {
			case <-done:
				out.Stat("panic_then_served", 1)
			case <-time.After(20 * time.Second):
				out.Fail("c20-deadlock-listener-mutex-held-after-panic",
					fmt.Sprintf("after a %s handler panicked (recovered, as controller-runtime does) a %s event is not served within 20 s: the Listener mutex is still held — the wrapper of %s does not release it by a deferred unlock", first, second, first),
					map[string]any{"first": first, "second": second, "how": "./check C20 (TestVerifRaceSpeaker, vrPanicScenario: real k8s.Listener wrappers, a callback that panics once)"})
				return
			}
		}
	}
}

func TestVerifRaceSpeaker(t *testing.T) {
	out := vOpen()
	defer out.Close()
	r := vRand()
	rounds := vN(3)
	raw := vrRaw()
	vrPanicScenario(out, raw)
	// corpus/C20/F17-getstatus-alias.json: fixed first round
	vrRound(t, out, 17, -1, raw)
	for round := 0; round < rounds; round++ {
		vrRound(t, out, r.Int63(), round, raw)
	}
}

func vrRound(t *testing.T, out *vOut, seed int64, round int, raw map[string]bool) {
	nev := 240
	if vThorough() {
		nev = 1200
	}
	workers := 4 + int(seed%5) // 4..8 delivering goroutines
	evs := vrEvents(seed, nev)
	sys := vrNewSystem(t, evs)
	var stop atomic.Bool
	var qwg, wg sync.WaitGroup
	var consumed atomic.Int64
	// the spam loop's use of the announcer
	qwg.Add(1)
	go func() {
		defer qwg.Done()
		for !stop.Load() {
			for _, adv := range sys.ann.VerifDrainSpam() {
				sys.ann.VerifGratuitous(adv)
			}
			time.Sleep(50 * time.Microsecond)
		}
	}()
	// the status reconcilers: triggered by the change callbacks, plus periodic resync
	for q := 0; q < 3; q++ {
		qwg.Add(1)
		go func(q int) {
			defer qwg.Done()
			k := 0
			for !stop.Load() {
				select {
				case nn := <-sys.l2evts:
					consumed.Add(int64(vrConsumeL2(sys.c.layer2StatusFetchFunc, nn)))
				case key := <-sys.bgpevt:
					consumed.Add(int64(vrConsumeBGP(sys.c.bgpPeersFetcher, key)))
				default:
					name := vrSvcNames[(k+q)%len(vrSvcNames)]
					k++
					parts := strings.Split(name, "/")
					consumed.Add(int64(vrConsumeL2(sys.c.layer2StatusFetchFunc, types.NamespacedName{Namespace: parts[0], Name: parts[1]})))
					consumed.Add(int64(vrConsumeBGP(sys.c.bgpPeersFetcher, name)))
				}
			}
		}(q)
	}
	// the first two events (initial config, own node) are delivered first, as at start-up
	sys.deliver(evs[0], raw)
	sys.deliver(evs[1], raw)
	rest := evs[2:]
	for w := 0; w < workers; w++ {
		wg.Add(1)
		go func(w int) {
			defer wg.Done()
			for i := w; i < len(rest); i += workers {
				sys.deliver(rest[i], raw)
			}
		}(w)
	}
	wg.Wait()
	stop.Store(true)
	qwg.Wait()
	got := sys.state()
	order := append([]int{}, sys.order...)
	out.Stat("speaker_events", len(order))
	out.Stat("speaker_fetches_consumed", int(consumed.Load()))
	if len(order) != len(evs) {
		out.Fail("c20-speaker-lost-event", fmt.Sprintf("%d events delivered, %d took effect", len(evs), len(order)), map[string]any{"seed": seed})
		return
	}
	// serial replay in the recorded order on a fresh speaker with equal events
	evs2 := vrEvents(seed, nev)
	ser := vrNewSystem(t, evs2)
	for _, id := range order {
		ser.deliver(evs2[id], nil)
	}
	want := ser.state()
	var diffs []string
	for k, v := range want {
		if got[k] != v {
			diffs = append(diffs, fmt.Sprintf("%s: concurrent %q, serial %q", k, got[k], v))
		}
	}
	for k, v := range got {
		if _, ok := want[k]; !ok {
			diffs = append(diffs, fmt.Sprintf("%s: concurrent %q, serial <absent>", k, v))
		}
	}
	nontrivial := 0
	for k, v := range got {
		if strings.HasPrefix(k, "l2 ") && v != "" {
			nontrivial++
		}
		if strings.HasPrefix(k, "peers ") && v != "" {
			nontrivial++
		}
	}
	out.Stat("speaker_final_l2_or_bgp_announcements", nontrivial)
	vrReportSkipped(out)
	if len(diffs) > 0 {
		sort.Strings(diffs)
		var sched []string
		for _, id := range order {
			sched = append(sched, fmt.Sprintf("%d:%s", id, evs[id].What))
		}
		out.Fail("c20-speaker-serial-divergence",
			fmt.Sprintf("speaker state after concurrent delivery differs from the serial replay in lock-acquisition order: %s", strings.Join(diffs, " | ")),
			map[string]any{"seed": seed, "workers": workers, "raw_handlers": os.Getenv("VERIF_RAW_HANDLERS"), "schedule": sched})
	}
	out.Case(round, "speaker-round", "tt", map[string]any{"seed": seed, "workers": workers, "events": len(evs), "state": got})
}

// ---------------------------------------------------------------- notifications vs. state (eager status reconcilers)

// TestVerifNotifySpeaker: handler effects are atomic with respect to the independent status
// reconcilers.  As in speaker/main.go a handler hands a status event over an UNBUFFERED channel;
// the consumer here is EAGER: it runs at once — before the handler goes on — queries the real
// fetcher (GetStatus / PeersForService, which need only the component's own lock) and remembers
// the LAST value it published.  Events (announce, re-announce with changed interfaces, moved
// address, withdrawals, config and node changes) are delivered through the real Listener
// wrappers; after every handler (nothing pending) the last published status of every service
// must be the state the handlers left.
func TestVerifNotifySpeaker(t *testing.T) {
	out := vOpen()
	defer out.Close()
	r := vRand()
	rounds := vN(3)
	for round := 0; round < rounds; round++ {
		seed := r.Int63()
		nev := 200
		if vThorough() {
			nev = 1500
		}
		evs := vrEvents(seed, nev)
		sys := vrNewSystem(t, evs)
		type l2evt struct {
			nn   types.NamespacedName
			done chan struct{}
		}
		type bgpevt struct {
			key  string
			done chan struct{}
		}
		l2ch, bgpch := make(chan l2evt), make(chan bgpevt) // unbuffered, as l2StatusChan / bgpStatusChan
		stop := make(chan struct{})
		var mu sync.Mutex
		pubL2, pubBGP := map[string]string{}, map[string]string{}
		l2view := func(nn types.NamespacedName) string {
			advs := sys.c.layer2StatusFetchFunc(nn)
			if len(advs) == 0 {
				return ""
			}
			adv := advs[0] // what Layer2StatusReconciler.buildDesiredStatus uses
			if adv.IsAllInterfaces() {
				return "announced on all interfaces"
			}
			return "announced on " + strings.Join(sets.List(adv.GetInterfaces()), ",")
		}
		bgpview := func(key string) string { return strings.Join(sets.List(sys.c.bgpPeersFetcher(key)), ",") }
		go func() {
			for {
				select {
				case <-stop:
					return
				case e := <-l2ch:
					v := l2view(e.nn)
					mu.Lock()
					pubL2[e.nn.String()] = v
					mu.Unlock()
					close(e.done)
				case e := <-bgpch:
					v := bgpview(e.key)
					mu.Lock()
					pubBGP[e.key] = v
					mu.Unlock()
					close(e.done)
				}
			}
		}()
		sys.eagerL2 = func(nn types.NamespacedName) {
			e := l2evt{nn, make(chan struct{})}
			l2ch <- e
			<-e.done // the reconciler wins the race with the rest of the handler
		}
		sys.eagerBGP = func(k string) {
			e := bgpevt{k, make(chan struct{})}
			bgpch <- e
			<-e.done
		}
		var sched []string
		bad := false
		for _, e := range evs {
			sys.deliver(e, nil)
			sched = append(sched, fmt.Sprintf("%d:%s", e.ID, e.What))
			out.Stat("notify_speaker_events", 1)
			for _, name := range vrSvcNames {
				parts := strings.Split(name, "/")
				nn := types.NamespacedName{Namespace: parts[0], Name: parts[1]}
				mu.Lock()
				gotL2, gotBGP := pubL2[nn.String()], pubBGP[name]
				mu.Unlock()
				if now := l2view(nn); now != gotL2 && !bad {
					bad = true
					out.Fail("c20-status-stale-l2", fmt.Sprintf("after %q (no status event pending) the last published layer-2 status of %s is %q but the state left by the handlers is %q: the notification was sent before the state it announces was in place, or not at all", e.What, name, gotL2, now),
						map[string]any{"seed": seed, "schedule": sched, "how": "./check C20 (TestVerifNotifySpeaker: eager consumer on the unbuffered status channel)"})
				} else if now != "" {
					out.Stat("notify_speaker_l2_announced_checks", 1)
				}
				if now := bgpview(name); now != gotBGP && !bad {
					bad = true
					out.Fail("c20-status-stale-bgp", fmt.Sprintf("after %q the last published BGP peers of %s are %q but the state left by the handlers is %q", e.What, name, gotBGP, now),
						map[string]any{"seed": seed, "schedule": sched})
				} else if now != "" {
					out.Stat("notify_speaker_bgp_peers_checks", 1)
				}
			}
			if bad {
				break
			}
		}
		close(stop)
		out.Case(round, "notify-speaker", "tt", map[string]any{"seed": seed, "events": len(evs)})
	}
}
