//go:build verif

package main

// Harness for C15 at the speaker level (owned by the frr group): the REAL
// BGP protocol handler of the speaker (built by newController; used only through
// the Protocol interface) in frr-k8s mode with the REAL frr-k8s session manager and a
// capturing callback, driven through histories of SetConfig (peers with and
// without node selectors, peers added / removed), SetNode (node labels flip so
// that a peer stops / starts selecting this node), SetBalancer / DeleteBalancer.
// Property (C15: the resource is a deterministic function of the session set and
// lists for each neighbor exactly the requested prefixes): after every step the
// last FRRConfiguration handed to the callback equals the one a FRESH controller
// + session manager produce when given only the current peers, node labels and
// services.

import (
	"encoding/json"
	"fmt"
	"math/rand"
	"net"
	"reflect"
	"sort"
	"testing"
	"unsafe"

	"github.com/go-kit/log"
	frrv1beta1 "github.com/metallb/frr-k8s/api/v1beta1"
	"go.universe.tf/metallb/internal/bgp"
	"go.universe.tf/metallb/internal/bgp/community"
	bgpfrrk8s "go.universe.tf/metallb/internal/bgp/frrk8s"
	"go.universe.tf/metallb/internal/config"
	"go.universe.tf/metallb/internal/logging"
	v1 "k8s.io/api/core/v1"
	metav1 "k8s.io/apimachinery/pkg/apis/meta/v1"
	"k8s.io/apimachinery/pkg/labels"
)

const vFlapNode = "node-a"

type vFlapPeer struct {
	Name     string `json:"name"`
	Addr     string `json:"addr"`
	ASN      uint32 `json:"asn"`
	Selector string `json:"selector"` // "" = no node selector, else the value of label "rack" it selects
}

type vFlapSvc struct {
	Name  string   `json:"name"`
	IP    string   `json:"ip"`
	LP    uint32   `json:"lp"`
	Comms []string `json:"comms"`
	Peers []string `json:"peers"` // restricted to these peers ([] = all)
}

type vFlapOp struct {
	Kind  string      `json:"kind"` // config node svc delsvc
	Peers []vFlapPeer `json:"peers,omitempty"`
	Rack  string      `json:"rack,omitempty"`
	Svc   *vFlapSvc   `json:"svc,omitempty"`
	Name  string      `json:"name,omitempty"`
}

type vFlapState struct {
	Peers []vFlapPeer
	Rack  string
	HasN  bool
	Svcs  map[string]vFlapSvc
}

// The BGP handler of a speaker controller built by the speaker's own constructor (newController, with the
// package hook newBGP returning the REAL frr-k8s session manager whose callback is captured).  No private
// field of controller / bgpController / peer is named: the handler is found by TYPE (the map of Protocol
// handlers) through reflect; when it cannot be found the harness reports whitebox_skipped and does nothing.
func vFlapController() (Protocol, func() *frrv1beta1.FRRConfiguration) {
	sm := bgpfrrk8s.NewSessionManager(log.NewNopLogger(), logging.LevelInfo, vFlapNode, "metallb-system")
	var last *frrv1beta1.FRRConfiguration
	sm.SetEventCallback(func(o interface{}) {
		c := o.(frrv1beta1.FRRConfiguration)
		last = c.DeepCopy()
	})
	old := newBGP
	newBGP = func(controllerConfig) bgp.SessionManager { return sm }
	ctl, err := newController(controllerConfig{MyNode: vFlapNode, Namespace: "metallb-system", FRRK8sNamespace: "metallb-system",
		Logger: log.NewNopLogger(), LogLevel: logging.LevelInfo, bgpType: bgpFrrK8s, DisableLayer2: true, BGPAdsChangedCallback: func(string) {}})
	newBGP = old
	if err != nil {
		panic(err)
	}
	var h Protocol
	want := reflect.TypeOf((*Protocol)(nil)).Elem()
	cv := reflect.ValueOf(ctl).Elem()
	for i := 0; i < cv.NumField() && h == nil; i++ {
		f := cv.Field(i)
		if f.Kind() != reflect.Map || f.Type().Elem() != want {
			continue
		}
		f = reflect.NewAt(f.Type(), unsafe.Pointer(f.UnsafeAddr())).Elem()
		for it := f.MapRange(); it.Next(); {
			if fmt.Sprint(it.Key().Interface()) == string(config.BGP) {
				h, _ = it.Value().Interface().(Protocol)
			}
		}
	}
	return h, func() *frrv1beta1.FRRConfiguration { return last }
}

func vFlapConfig(ps []vFlapPeer) *config.Config {
	cfg := &config.Config{Peers: map[string]*config.Peer{}}
	for _, p := range ps {
		cp := &config.Peer{Name: p.Name, Addr: net.ParseIP(p.Addr), ASN: p.ASN, MyASN: 64512, Port: 179, RouterID: net.ParseIP("10.1.1.254")}
		if p.Selector != "" {
			cp.NodeSelectors = []labels.Selector{labels.SelectorFromSet(labels.Set{"rack": p.Selector})}
		}
		cfg.Peers[p.Name] = cp
	}
	return cfg
}

func vFlapApply(c Protocol, op vFlapOp) error {
	l := log.NewNopLogger()
	switch op.Kind {
	case "config":
		return c.SetConfig(l, vFlapConfig(op.Peers))
	case "node":
		return c.SetNode(l, &v1.Node{ObjectMeta: metav1.ObjectMeta{Name: vFlapNode, Labels: map[string]string{"rack": op.Rack}}})
	case "svc":
		adv := &config.BGPAdvertisement{AggregationLength: 32, AggregationLengthV6: 128, LocalPref: op.Svc.LP,
			Communities: map[community.BGPCommunity]bool{}, Nodes: map[string]bool{vFlapNode: true}, Peers: op.Svc.Peers}
		for _, cs := range op.Svc.Comms {
			cc, err := community.New(cs)
			if err != nil {
				panic(err)
			}
			adv.Communities[cc] = true
		}
		pool := &config.Pool{Name: "pool-" + op.Svc.Name, BGPAdvertisements: []*config.BGPAdvertisement{adv}}
		return c.SetBalancer(l, op.Svc.Name, []net.IP{net.ParseIP(op.Svc.IP)}, pool, nil, nil)
	case "delsvc":
		return c.DeleteBalancer(l, op.Name, "verif")
	}
	return nil
}

func vFlapRouters(c *frrv1beta1.FRRConfiguration) string {
	if c == nil || len(c.Spec.BGP.Routers) == 0 {
		return "[]"
	}
	b, err := json.Marshal(c.Spec.BGP.Routers)
	if err != nil {
		panic(err)
	}
	return string(b)
}

// a fresh controller given only the current inputs
func vFlapFresh(st vFlapState) string {
	c, last := vFlapController()
	if st.HasN {
		_ = vFlapApply(c, vFlapOp{Kind: "node", Rack: st.Rack})
	}
	_ = vFlapApply(c, vFlapOp{Kind: "config", Peers: st.Peers})
	names := make([]string, 0, len(st.Svcs))
	for n := range st.Svcs {
		names = append(names, n)
	}
	sort.Strings(names)
	for _, n := range names {
		s := st.Svcs[n]
		_ = vFlapApply(c, vFlapOp{Kind: "svc", Svc: &s})
	}
	return vFlapRouters(last())
}

func vFlapGen(r *rand.Rand) []vFlapOp {
	pool := []vFlapPeer{{Name: "peer-a", Addr: "10.2.2.254", ASN: 64512, Selector: "r1"}, {Name: "peer-b", Addr: "10.2.2.255", ASN: 65001, Selector: ""},
		{Name: "peer-c", Addr: "192.168.1.1", ASN: 65002, Selector: "r2"}}
	pick := func() []vFlapPeer {
		var ps []vFlapPeer
		for _, p := range pool {
			if r.Intn(3) != 0 {
				q := p
				if r.Intn(5) == 0 {
					q.Selector = []string{"", "r1", "r2"}[r.Intn(3)]
				}
				ps = append(ps, q)
			}
		}
		if len(ps) == 0 {
			ps = append(ps, pool[0])
		}
		return ps
	}
	ips := []string{"172.16.1.10", "172.16.1.11", "fc00:f853:ccd:e799::5"}
	svc := func() *vFlapSvc {
		k := r.Intn(3)
		s := &vFlapSvc{Name: fmt.Sprintf("ns/svc%d", k), IP: ips[k], LP: []uint32{0, 100}[r.Intn(2)], Comms: []string{}, Peers: []string{}}
		if r.Intn(2) == 0 {
			s.Comms = append(s.Comms, []string{"65000:100", "large:64512:1:2"}[r.Intn(2)])
		}
		if r.Intn(4) == 0 {
			s.Peers = []string{pool[r.Intn(len(pool))].Name}
		}
		return s
	}
	ops := []vFlapOp{{Kind: "node", Rack: "r1"}, {Kind: "config", Peers: pick()}, {Kind: "svc", Svc: svc()}}
	for k, n := 0, 4+r.Intn(8); k < n; k++ {
		switch x := r.Intn(10); {
		case x <= 3: // the node label flips: selectors stop / start matching
			ops = append(ops, vFlapOp{Kind: "node", Rack: []string{"r1", "r2", "r3"}[r.Intn(3)]})
		case x <= 5:
			ops = append(ops, vFlapOp{Kind: "svc", Svc: svc()})
		case x == 6:
			ops = append(ops, vFlapOp{Kind: "delsvc", Name: fmt.Sprintf("ns/svc%d", r.Intn(3))})
		default:
			ops = append(ops, vFlapOp{Kind: "config", Peers: pick()})
		}
	}
	return ops
}

func TestVerifK8sFlap(t *testing.T) {
	out := vOpen()
	defer out.Close()
	r := vRand()
	n := vN(40)
	hs := [][]vFlapOp{{ // peer with a node selector, service announced, the label flips off and on again
		{Kind: "node", Rack: "r1"},
		{Kind: "config", Peers: []vFlapPeer{{Name: "peer-a", Addr: "10.2.2.254", ASN: 64512, Selector: "r1"}, {Name: "peer-b", Addr: "10.2.2.255", ASN: 65001}}},
		{Kind: "svc", Svc: &vFlapSvc{Name: "ns/svc0", IP: "172.16.1.10", Comms: []string{"65000:100"}, Peers: []string{}}},
		{Kind: "node", Rack: "r2"}, {Kind: "node", Rack: "r1"},
	}}
	for len(hs) < n {
		hs = append(hs, vFlapGen(r))
	}
	if h, _ := vFlapController(); h == nil {
		out.Stat("whitebox_skipped:speaker-bgp-handler", 1)
		return
	}
	for hi, ops := range hs {
		c, last := vFlapController()
		st := vFlapState{Svcs: map[string]vFlapSvc{}}
		for step, op := range ops {
			if err := vFlapApply(c, op); err != nil {
				out.Fail("k8s-speaker-api-error", fmt.Sprintf("history %d step %d (%s): %v", hi, step, op.Kind, err), ops)
				break
			}
			switch op.Kind {
			case "config":
				st.Peers = op.Peers
			case "node":
				st.Rack, st.HasN = op.Rack, true
				out.Stat("flap_node_label_changes", 1)
			case "svc":
				st.Svcs[op.Svc.Name] = *op.Svc
			case "delsvc":
				delete(st.Svcs, op.Name)
			}
			got, want := vFlapRouters(last()), vFlapFresh(st)
			if got != want {
				out.Fail("k8s-speaker-history-dependent",
					fmt.Sprintf("history %d step %d (%s): the FRRConfiguration produced by the speaker's frr-k8s session manager differs from the one a fresh speaker produces from the current peers, node labels and services", hi, step, op.Kind),
					map[string]any{"history": ops, "step": step, "routers_now": json.RawMessage(got), "routers_of_fresh_speaker": json.RawMessage(want)})
				break
			}
		}
		out.Stat("flap_histories", 1)
	}
}
