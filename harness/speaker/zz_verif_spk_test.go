//go:build verif

package main

// Harness for C09 (Model/Speaker.v): histories of service / endpoint / node /
// configuration / speaker-membership events on the REAL speaker controller
// (speaker/main.go) composed with the real layer2Controller, the real
// bgpController (recording session manager) and a real layer2.Announce built
// by the overlay constructor (fixed interface list, no goroutines touching the
// network).  Every event is followed by the re-syncs it requests.  After every
// event: (a) observables are shipped to Coq, (b) oracle: a freshly created
// real controller fed the final cluster state must announce the same.
// Uses the helpers of zz_verif_bgp_test.go.

import (
	"crypto/sha256"
	"encoding/json"
	"fmt"
	"math/big"
	"math/rand"
	"net"
	"os"
	"sort"
	"testing"

	"github.com/go-kit/log"
	v1 "k8s.io/api/core/v1"
	metav1 "k8s.io/apimachinery/pkg/apis/meta/v1"
	"k8s.io/apimachinery/pkg/types"

	"go.universe.tf/metallb/internal/config"
	"go.universe.tf/metallb/internal/k8s/controllers"
	"go.universe.tf/metallb/internal/layer2"
	"go.universe.tf/metallb/internal/speakerlist"
)

type vsSL struct {
	nodes    []int
	disabled bool
}

func (s *vsSL) UsableSpeakers() speakerlist.SpeakerListInfo {
	if s.disabled {
		return speakerlist.SpeakerListInfo{Nodes: nil, Disabled: true}
	}
	m := map[string]bool{}
	for _, i := range s.nodes {
		m[vbNodeNames[i]] = true
	}
	return speakerlist.SpeakerListInfo{Nodes: m, Disabled: false}
}
func (s *vsSL) Rejoin() {}

var vsIfNames = map[int]string{0: "eth0", 1: "eth1", 9: "eth9"}
var vsLocalIfs = []int{0, 1}

type vsL2Adv struct {
	Nodes []int `json:"nodes"`
	Ifs   []int `json:"ifs"`
	All   bool  `json:"all"`
}
type vsPool struct {
	CIDRs []string  `json:"cidrs"`
	BGP   []vbBAdv  `json:"bgp"`
	L2    []vsL2Adv `json:"l2"`
}
type vsCfg struct {
	Pools []vsPool `json:"pools"`
	Peers []vbPeer `json:"peers"`
}
type vsSvc struct {
	LB      bool     `json:"lb"`
	IPs     []string `json:"ips"`     // ingress entries as written
	Invalid bool     `json:"invalid"` // some entry does not parse
	Local   bool     `json:"local"`
	Eps     [][]vbEP `json:"eps"`
}
type vsNode struct {
	Idx     int      `json:"idx"`
	Unavail bool     `json:"unavail"`
	Excl    bool     `json:"excl"`
	Labels  [][2]int `json:"labels"`
	LblVal  int      `json:"lblval,omitempty"` // selects the value of the exclude label
	// the NetworkUnavailable condition is PRESENT with status False (without it a node that is not unavailable has no such condition at all)
	CondFalse bool `json:"cond_false,omitempty"`
}
type vsEv struct {
	Op       string  `json:"op"` // svc del cfg node spk resync
	Name     int     `json:"name,omitempty"`
	Svc      *vsSvc  `json:"svc,omitempty"`
	Cfg      *vsCfg  `json:"cfg,omitempty"`
	Node     *vsNode `json:"node,omitempty"`
	Disabled bool    `json:"disabled,omitempty"`
	Speakers []int   `json:"speakers,omitempty"`
}
type vsHist struct {
	Ignore     bool   `json:"ignore"`
	Disabled   bool   `json:"disabled"`
	Speakers   []int  `json:"speakers"`
	SharedAddr bool   `json:"shared_peer_addr,omitempty"` // all BGP peers on one address (different port / VRF)
	Evs        []vsEv `json:"evs"`
}

var vsSvcIPs = [][]string{
	{"10.20.30.1"}, {"10.20.30.2"}, {"10.20.30.200"}, {"10.20.31.1"}, {"10.20.31.2"},
	{"fc00:30::1"}, {"fc00:31::1"},
	{"10.20.30.1", "fc00:30::1"}, {"fc00:30::1", "10.20.30.2"}, {"10.20.31.1", "fc00:31::1"},
	{"10.20.30.1", "10.20.31.1"}, // spans two pools: not allowed by any pool
	{"10.20.30.1", "10.20.30.2"},
}

func vsAllIPs() []string {
	m := map[string]bool{}
	for _, l := range vsSvcIPs {
		for _, s := range l {
			m[net.ParseIP(s).String()] = true
		}
	}
	for _, l := range vsElectAddrs {
		for _, s := range l {
			m[net.ParseIP(s).String()] = true
		}
	}
	var r []string
	for s := range m {
		r = append(r, s)
	}
	sort.Strings(r)
	return r
}

func vsGenL2(r *rand.Rand, allowBadIf bool) []vsL2Adv {
	var l []vsL2Adv
	for n := r.Intn(4); n > 0; n-- {
		a := vsL2Adv{Nodes: []int{}, Ifs: []int{}}
		for i := 0; i < 3; i++ {
			if r.Intn(4) != 0 {
				a.Nodes = append(a.Nodes, i)
			}
		}
		switch r.Intn(4) {
		case 0:
			a.Ifs = []int{0}
		case 1:
			a.Ifs = []int{1, 0}
		default:
			a.All = true
		}
		if allowBadIf && r.Intn(2) == 0 {
			a.All = false
			a.Ifs = []int{9} // an interface this node does not have
		}
		l = append(l, a)
	}
	return l
}

func vsGenCfg(r *rand.Rand) *vsCfg {
	c := &vsCfg{Peers: vbGenPeers(r)}
	bad := r.Intn(12) == 0
	for p := 0; p < 2; p++ {
		if r.Intn(8) == 0 {
			continue // pool removed
		}
		pl := vsPool{}
		if p == 0 {
			pl.CIDRs = []string{"10.20.30.0/24", "fc00:30::/64"}
			if r.Intn(6) == 0 {
				pl.CIDRs = []string{"10.20.30.0/25", "fc00:30::/64"} // 10.20.30.200 falls out
			}
		} else {
			pl.CIDRs = []string{"10.20.31.0/24", "fc00:31::/64"}
		}
		if r.Intn(5) != 0 {
			pl.BGP = vbGenBAdvs(r)
		}
		pl.L2 = vsGenL2(r, bad)
		c.Pools = append(c.Pools, pl)
	}
	return c
}

func vsGenSvc(r *rand.Rand) *vsSvc {
	s := &vsSvc{LB: r.Intn(10) != 0, Local: r.Intn(2) == 0}
	switch r.Intn(12) {
	case 0:
		s.IPs = []string{}
	case 1:
		s.IPs = []string{"10.20.30.1", "not-an-ip"}
		s.Invalid = true
	default:
		s.IPs = vsSvcIPs[r.Intn(len(vsSvcIPs))]
	}
	for ns := r.Intn(3); ns > 0; ns-- {
		var sl []vbEP
		for ne := 1 + r.Intn(3); ne > 0; ne-- {
			e := vbGenEP(r)
			if r.Intn(2) == 0 {
				b := true
				e.Ready = &b
			}
			sl = append(sl, e)
		}
		s.Eps = append(s.Eps, sl)
	}
	return s
}


// Service k holds an address that another Service holds too
func vsSharesAddress(last [4]*vsSvc, k int) bool {
	if last[k] == nil {
		return false
	}
	for j, o := range last {
		if j == k || o == nil {
			continue
		}
		for _, a := range last[k].IPs {
			for _, b := range o.IPs {
				if a == b {
					return true
				}
			}
		}
	}
	return false
}

// edits of a Service's address set that keep part of it
func vsEditIPs(r *rand.Rand, ips []string) []string {
	partner := func(ip string) string { // another address of the same pool
		for _, l := range vsSvcIPs {
			if len(l) == 2 && vsPoolIdx(&vsCfg{Pools: []vsPool{{CIDRs: []string{"10.20.30.0/24", "fc00:30::/64"}}, {CIDRs: []string{"10.20.31.0/24", "fc00:31::/64"}}}}, l) >= 0 {
				if l[0] == ip {
					return l[1]
				}
				if l[1] == ip {
					return l[0]
				}
			}
		}
		return ""
	}
	switch len(ips) {
	case 2:
		switch r.Intn(5) {
		case 0:
			return []string{ips[0]}
		case 1:
			return []string{ips[1]}
		case 2:
			return []string{ips[1], ips[0]}
		case 3:
			if c := partner(ips[0]); c != "" && c != ips[1] {
				return []string{ips[0], c}
			}
			return []string{ips[1]}
		}
		return []string{}
	case 1:
		if c := partner(ips[0]); c != "" {
			if r.Intn(2) == 0 {
				return []string{ips[0], c}
			}
			return []string{c, ips[0]}
		}
	}
	return []string{}
}

func vsGenNode(r *rand.Rand, idx int) *vsNode {
	return &vsNode{Idx: idx, Unavail: r.Intn(5) == 0, Excl: r.Intn(6) == 0, Labels: vbGenLabels(r), LblVal: r.Intn(4)}
}

func vsGenSpk(r *rand.Rand) (bool, []int) {
	if r.Intn(4) == 0 {
		return true, nil
	}
	var l []int
	for i := 0; i < 3; i++ {
		if r.Intn(5) != 0 {
			l = append(l, i)
		}
	}
	return false, l
}

func vsGenHist(r *rand.Rand) vsHist {
	h := vsHist{Ignore: r.Intn(3) == 0, SharedAddr: r.Intn(4) == 0}
	// "labelled" histories: the speaker ignores the exclude label and every node carries it
	// throughout; only the NetworkUnavailable condition of the nodes flips
	labelled := h.Ignore && r.Intn(2) == 0
	genNode := func(idx int) *vsNode {
		n := vsGenNode(r, idx)
		if labelled {
			n.Excl = true
		}
		return n
	}
	h.Disabled, h.Speakers = vsGenSpk(r)
	var lastNode [3]*vsNode
	for i := 0; i < 3; i++ {
		if r.Intn(7) != 0 || (labelled && i == 0) {
			lastNode[i] = genNode(i)
			h.Evs = append(h.Evs, vsEv{Op: "node", Node: lastNode[i]})
		}
	}
	if r.Intn(10) != 0 {
		h.Evs = append(h.Evs, vsEv{Op: "cfg", Cfg: vsGenCfg(r)})
	}
	var last [4]*vsSvc
	var lastPeers []vbPeer
	var lastCfg *vsCfg
	for _, e := range h.Evs {
		if e.Op == "cfg" {
			lastPeers = e.Cfg.Peers
			lastCfg = e.Cfg
		}
	}
	// a Node update of this node that changes labels only: towards (or away from) a selector of a configured peer
	labelOnly := func() (vsEv, bool) {
		if lastNode[0] == nil {
			return vsEv{}, false
		}
		c := *lastNode[0]
		c.Labels = vbGenLabels(r)
		var sels [][][2]int
		for _, p := range lastPeers {
			sels = append(sels, p.Sels...)
		}
		if len(sels) > 0 && r.Intn(4) != 0 {
			sel := sels[r.Intn(len(sels))]
			c.Labels = append([][2]int{}, sel...)
			if r.Intn(3) == 0 && len(c.Labels) > 0 { // stop matching
				c.Labels[0][1] = 1 - c.Labels[0][1]
			}
			sort.Slice(c.Labels, func(i, j int) bool { return c.Labels[i][0] < c.Labels[j][0] })
		}
		lastNode[0] = &c
		return vsEv{Op: "node", Node: &c}, true
	}
	curDisabled, curSpk := h.Disabled, append([]int(nil), h.Speakers...)
	var deleted [3]bool
	for n := 5 + r.Intn(21); n > 0; n-- {
		x := r.Intn(100)
		switch {
		case x == 99 || x == 83:
			// a Node object (of another node) is deleted; with memberlist its speaker leaves the list too
			idx := 1 + r.Intn(2)
			if lastNode[idx] != nil && !deleted[idx] {
				deleted[idx] = true
				h.Evs = append(h.Evs, vsEv{Op: "nodedel", Node: &vsNode{Idx: idx}})
				if !curDisabled {
					var l []int
					for _, i := range curSpk {
						if i != idx {
							l = append(l, i)
						}
					}
					curSpk = l
					h.Evs = append(h.Evs, vsEv{Op: "spk", Speakers: l})
				}
			}
		case x >= 96 && x < 98 || x >= 84 && x < 88:
			if e, ok := labelOnly(); ok {
				h.Evs = append(h.Evs, e)
			}
		case x < 50:
			k := r.Intn(4)
			var s *vsSvc
			if last[k] != nil && r.Intn(2) == 0 { // small change of an existing service
				c := *last[k]
				switch r.Intn(7) {
				case 0:
					c.Eps = vsGenSvc(r).Eps
				case 1:
					c.Local = !c.Local
				case 2:
					c.LB = !c.LB // stops / starts being a LoadBalancer
				case 3:
					c.IPs = vsEditIPs(r, c.IPs) // {a,b}->{a} / {b} / reordered / {a,c}; {a}->{a,b}; or loses its address
					c.Invalid = false
				case 4:
					c.Eps = nil // loses its endpoints
				case 5:
					c.IPs = vsEditIPs(r, c.IPs)
					c.Invalid = false
				default:
					c.IPs = vsSvcIPs[r.Intn(len(vsSvcIPs))]
					c.Invalid = false
				}
				s = &c
			} else {
				s = vsGenSvc(r)
			}
			last[k] = s
			h.Evs = append(h.Evs, vsEv{Op: "svc", Name: k, Svc: s})
		case x < 57:
			k := r.Intn(4)
			if r.Intn(2) == 0 { // prefer a Service one of whose addresses is also held by another Service
				for j := 0; j < 4; j++ {
					c := (k + j) % 4
					if vsSharesAddress(last, c) {
						k = c
						break
					}
				}
			}
			last[k] = nil
			h.Evs = append(h.Evs, vsEv{Op: "del", Name: k})
		case x < 72:
			c := vsGenCfg(r)
			if lastCfg != nil && r.Intn(3) == 0 && len(lastCfg.Pools) > 0 {
				// the previous configuration with the advertisements of ONE protocol added to / dropped from one pool
				d := *lastCfg
				d.Pools = append([]vsPool(nil), lastCfg.Pools...)
				pi := r.Intn(len(d.Pools))
				pl := d.Pools[pi]
				if r.Intn(2) == 0 {
					if len(pl.BGP) == 0 {
						pl.BGP = vbGenBAdvs(r)
					} else {
						pl.BGP = nil
					}
				} else {
					if len(pl.L2) == 0 {
						pl.L2 = []vsL2Adv{{Nodes: []int{0, 1, 2}, Ifs: []int{}, All: true}}
					} else {
						pl.L2 = nil
					}
				}
				d.Pools[pi] = pl
				c = &d
			}
			lastCfg = c
			lastPeers = c.Peers
			h.Evs = append(h.Evs, vsEv{Op: "cfg", Cfg: c})
			// the controller side releases the addresses that have no pool any more (most of the time, some right away)
			for k := 0; k < 4; k++ {
				if last[k] != nil && !last[k].Invalid && len(last[k].IPs) > 0 && !vsHasPool(c, last[k].IPs) && r.Intn(3) != 0 {
					d := *last[k]
					d.IPs = []string{}
					last[k] = &d
					h.Evs = append(h.Evs, vsEv{Op: "svc", Name: k, Svc: &d})
				}
			}
		case x < 88:
			idx := r.Intn(3)
			if r.Intn(2) == 0 || deleted[idx] {
				idx = 0
			}
			nd := genNode(idx)
			if lastNode[idx] != nil && (labelled || r.Intn(2) == 0) { // flip one flag of a known node
				c := *lastNode[idx]
				if labelled || r.Intn(2) == 0 {
					c.Unavail = !c.Unavail
				} else {
					c.Excl = !c.Excl
				}
				nd = &c
			}
			lastNode[idx] = nd
			h.Evs = append(h.Evs, vsEv{Op: "node", Node: nd})
		case x < 96:
			d, l := vsGenSpk(r)
			var l2 []int
			for _, i := range l {
				if !deleted[i] {
					l2 = append(l2, i)
				}
			}
			curDisabled, curSpk = d, l2
			h.Evs = append(h.Evs, vsEv{Op: "spk", Disabled: d, Speakers: l2})
		default:
			h.Evs = append(h.Evs, vsEv{Op: "resync"})
		}
	}
	// labelled histories end right after a flip of this node's NetworkUnavailable condition (label unchanged)
	if labelled && lastNode[0] != nil {
		c := *lastNode[0]
		c.Unavail = !c.Unavail
		lastNode[0] = &c
		h.Evs = append(h.Evs, vsEv{Op: "node", Node: &c})
		if r.Intn(2) == 0 {
			d := c
			d.Unavail = !d.Unavail
			lastNode[0] = &d
			h.Evs = append(h.Evs, vsEv{Op: "node", Node: &d})
		}
		return h
	}
	// one history in three ends right after label-only updates of this node (nothing repairs the state afterwards)
	if r.Intn(3) == 0 {
		for k := 1 + r.Intn(2); k > 0; k-- {
			if e, ok := labelOnly(); ok {
				h.Evs = append(h.Evs, e)
			}
		}
	}
	return h
}

// ---- building the real objects

func vsBuildCfg(c *vsCfg) *config.Config {
	cfg := &config.Config{Peers: map[string]*config.Peer{}, Pools: &config.Pools{ByName: map[string]*config.Pool{}}}
	for _, p := range c.Peers {
		cfg.Peers[vbPeerName(p.Name)] = vbBuildPeer(p)
	}
	for i, pl := range c.Pools {
		p := &config.Pool{Name: fmt.Sprintf("pool%d", i)}
		for _, s := range pl.CIDRs {
			_, n, err := net.ParseCIDR(s)
			if err != nil {
				panic(err)
			}
			p.CIDR = append(p.CIDR, n)
		}
		for _, a := range pl.BGP {
			p.BGPAdvertisements = append(p.BGPAdvertisements, vbBuildBAdv(a))
		}
		for _, a := range pl.L2 {
			adv := &config.L2Advertisement{Nodes: map[string]bool{}, AllInterfaces: a.All}
			for _, n := range a.Nodes {
				adv.Nodes[vbNodeNames[n]] = true
			}
			for _, i := range a.Ifs {
				adv.Interfaces = append(adv.Interfaces, vsIfNames[i])
			}
			p.L2Advertisements = append(p.L2Advertisements, adv)
		}
		cfg.Pools.ByName[p.Name] = p
	}
	return cfg
}

func vsBuildSvc(name int, s *vsSvc) *v1.Service {
	svc := vbSvc(s.Local, s.IPs...)
	svc.Name = fmt.Sprintf("s%d", name)
	if !s.LB {
		svc.Spec.Type = "ClusterIP"
	}
	return svc
}

func vsBuildNode(n *vsNode) *v1.Node {
	o := &v1.Node{ObjectMeta: metav1.ObjectMeta{Name: vbNodeNames[n.Idx], Labels: vbLabelSet(n.Labels)}}
	if n.Excl { // the key's presence excludes the node, whatever the value
		o.Labels[v1.LabelNodeExcludeBalancers] = []string{"", "true", "false", "0"}[(n.Idx+len(n.Labels)+n.LblVal)%4]
	}
	if n.Unavail {
		o.Status.Conditions = []v1.NodeCondition{{Type: v1.NodeNetworkUnavailable, Status: v1.ConditionTrue}}
	} else if n.CondFalse {
		o.Status.Conditions = []v1.NodeCondition{{Type: v1.NodeReady, Status: v1.ConditionTrue}, {Type: v1.NodeNetworkUnavailable, Status: v1.ConditionFalse}}
	}
	return o
}

type vsCtl struct {
	c  *controller
	sm *vbSM
	a  *layer2.Announce
	sl *vsSL
}

func vsNewCtl(ignore bool, sl *vsSL) *vsCtl { return vsNewCtlFor(0, ignore, sl) }

// the controller of the speaker running on node `me`
func vsNewCtlFor(me int, ignore bool, sl *vsSL) *vsCtl {
	sm := &vbSM{}
	c := vbNewControllerFor(vbNodeNames[me], sm, ignore, true)
	var ifs []string
	for _, i := range vsLocalIfs {
		ifs = append(ifs, vsIfNames[i])
	}
	a := layer2.VerifSpkNewAnnounce(ifs)
	// what newController does when layer 2 is enabled, with the overlay announcer
	c.protocolHandlers[config.Layer2] = &layer2Controller{announcer: a, myNode: vbNodeNames[me], sList: sl,
		ignoreExcludeLB: ignore, onStatusChange: func(types.NamespacedName) {}}
	c.protocols = append(c.protocols, config.Layer2)
	return &vsCtl{c: c, sm: sm, a: a, sl: sl}
}

// ---- observables

type vsL2Ent struct {
	IP  string `json:"ip"`
	All bool   `json:"all"`
	Ifs []int  `json:"ifs"`
}
type vsObs struct {
	L2   map[int][]vsL2Ent `json:"l2"`   // announcer contents per service (sorted)
	Sess map[int][]vbAd    `json:"sess"` // live sessions
	AnnB map[int]bool      `json:"annb"`
	AnnL map[int]bool      `json:"annl"`
	Extra map[int][]string `json:"several_live_sessions,omitempty"` // peers with more than one live session
}

func vsIfIdx(s string) int {
	for k, v := range vsIfNames {
		if v == s {
			return k
		}
	}
	return 99
}

func vsSvcIdx(s string) int {
	for k, key := range vbSvcKeys {
		if key == s {
			return k
		}
	}
	var i int
	if _, err := fmt.Sscanf(s, "ns/s%d", &i); err != nil {
		return 99
	}
	return i
}

func vsObserve(k *vsCtl) vsObs {
	o := vsObs{L2: map[int][]vsL2Ent{}, Sess: map[int][]vbAd{}, AnnB: map[int]bool{}, AnnL: map[int]bool{}}
	for name, ents := range k.a.VerifSpkDump() {
		l := []vsL2Ent{}
		for _, e := range ents {
			x := vsL2Ent{IP: e.IP, All: e.All, Ifs: []int{}}
			for _, i := range e.Ifs {
				x.Ifs = append(x.Ifs, vsIfIdx(i))
			}
			sort.Ints(x.Ifs)
			l = append(l, x)
		}
		sort.Slice(l, func(i, j int) bool { return l[i].IP < l[j].IP })
		o.L2[vsSvcIdx(name)] = l
	}
	live, _ := k.sm.live()
	for nm, s := range live {
		o.Sess[vbPeerIdx(nm)] = vbAdSet(s.ads)
	}
	// sessions are independent objects until closed: the multiset of live sessions per peer
	cnt := map[int][]string{}
	for _, s := range k.sm.sessions {
		if !s.closed {
			b, _ := json.Marshal(vbAdSet(s.ads))
			cnt[vbPeerIdx(s.name)] = append(cnt[vbPeerIdx(s.name)], fmt.Sprintf("%s:%d vrf=%q %s", s.params.PeerAddress, s.params.PeerPort, s.params.VRFName, b))
		}
	}
	for p, l := range cnt {
		if len(l) > 1 {
			sort.Strings(l)
			if o.Extra == nil {
				o.Extra = map[int][]string{}
			}
			o.Extra[p] = l
		}
	}
	for i := 0; i < 4; i++ {
		o.AnnB[i] = k.c.announced[config.BGP][vbSvcName(i)]
		o.AnnL[i] = k.c.announced[config.Layer2][vbSvcName(i)]
	}
	return o
}

func vsAnnounced(o vsObs) string {
	m := map[string]any{"l2": o.L2, "sess": o.Sess}
	if len(o.Extra) > 0 {
		m["several_live_sessions_for_one_peer"] = o.Extra
	}
	b, _ := json.Marshal(m)
	return string(b)
}

// ---- Coq terms

func vsCfgCoq(c *vsCfg) string {
	var pools []string
	for _, pl := range c.Pools {
		var cidrs, l2 []string
		for _, s := range pl.CIDRs {
			ip, n, _ := net.ParseCIDR(s)
			_ = ip
			fam, base := vbIPNum(n.IP)
			ones, _ := n.Mask.Size()
			f := "F4"
			if fam == 6 {
				f = "F6"
			}
			cidrs = append(cidrs, cCtor("Build_prefix", f, cBigN(base), cNi(ones)))
		}
		for _, a := range pl.L2 {
			l2 = append(l2, cCtor("Build_l2adv", cListN(a.Nodes), cListN(a.Ifs), cBool(a.All)))
		}
		pools = append(pools, cCtor("Build_pool", cList(cidrs), vbBAdvsCoq(pl.BGP), cList(l2)))
	}
	return cCtor("Build_config", cList(pools), vbPeersCoq(c.Peers))
}

func vsSvcCoq(s *vsSvc) string {
	ips := cNone
	if !s.Invalid {
		var l []string
		for _, x := range s.IPs {
			l = append(l, vbIPCoq(x))
		}
		ips = cSome(cList(l))
	}
	return cCtor("Build_svc", cBool(s.LB), ips, cBool(s.Local), vbEpsCoq(s.Eps))
}

func vsEvCoq(e vsEv) string {
	switch e.Op {
	case "svc":
		return cCtor("ESvc", cNi(e.Name), cSome(vsSvcCoq(e.Svc)))
	case "del":
		return cCtor("ESvc", cNi(e.Name), cNone)
	case "cfg":
		return cCtor("ECfg", vsCfgCoq(e.Cfg))
	case "node":
		return cCtor("ENode", cCtor("Build_nodeinfo", cNi(e.Node.Idx), cBool(e.Node.Unavail), cBool(e.Node.Excl), vbPairsCoq(e.Node.Labels)))
	case "nodedel":
		return cCtor("ENodeDel", cNi(e.Node.Idx))
	case "spk":
		if e.Disabled {
			return cCtor("ESpk", cNone)
		}
		return cCtor("ESpk", cSome(cListN(e.Speakers)))
	}
	return "EResync"
}

func vsObsCoq(o vsObs) string {
	var l2, ss, ab, al []string
	for i := 0; i < 4; i++ {
		if ents, ok := o.L2[i]; ok {
			var l []string
			for _, e := range ents {
				l = append(l, cCtor("Build_l2ent", vbIPCoq(e.IP), cBool(e.All), cListN(e.Ifs)))
			}
			l2 = append(l2, cPair(cNi(i), cSome(cList(l))))
		} else {
			l2 = append(l2, cPair(cNi(i), cNone))
		}
		ab = append(ab, cPair(cNi(i), cBool(o.AnnB[i])))
		al = append(al, cPair(cNi(i), cBool(o.AnnL[i])))
	}
	for _, p := range []int{0, 1, 2, 9} {
		if ads, ok := o.Sess[p]; ok {
			ss = append(ss, cPair(cNi(p), cSome(vbAdsCoq(ads))))
		} else {
			ss = append(ss, cPair(cNi(p), cNone))
		}
	}
	return cCtor("mk_sobs", cList(l2), cList(ss), cList(ab), cList(al))
}

func vsHashCoq() string {
	var rows []string
	for _, ip := range vsAllIPs() {
		var hs []string
		for i, nm := range vbNodeNames {
			d := sha256.Sum256([]byte(nm + "#" + ip))
			hs = append(hs, cPair(cNi(i), cBigN(new(big.Int).SetBytes(d[:]))))
		}
		rows = append(rows, cPair(vbIPCoq(ip), cList(hs)))
	}
	return cList(rows)
}

// ---- the run

type vsWorld struct {
	K       map[int]*vsSvc
	nodes   map[int]*vsNode
	cfg     *vsCfg // last accepted by the speaker
	lastCfg *vsCfg // last delivered (what the API server holds); != cfg while a refused configuration is pending
	pending *vsCfg // refused with SyncStateError: the config reconciler forgot its memo and serves the request again
	deleted map[int]*vsNode // Node objects deleted from the cluster (the speaker never hears of it)
	stale   bool   // a node's first event happened with services present and no re-sync since
	staleBy int
}

func vsKeys(m map[int]*vsNode) []int {
	var r []int
	for k := range m {
		r = append(r, k)
	}
	sort.Ints(r)
	return r
}

// index of the pool containing all the addresses, -1 if none
func vsPoolIdx(c *vsCfg, ips []string) int {
	for i := range c.Pools {
		if vsHasPool(&vsCfg{Pools: c.Pools[i : i+1]}, ips) {
			return i
		}
	}
	return -1
}

// some pool of the configuration contains all the addresses
func vsHasPool(c *vsCfg, ips []string) bool {
	for _, pl := range c.Pools {
		all := len(ips) > 0
		for _, s := range ips {
			ip := net.ParseIP(s)
			in := false
			for _, cs := range pl.CIDRs {
				_, n, _ := net.ParseCIDR(cs)
				if ip != nil && n.Contains(ip) {
					in = true
				}
			}
			if !in {
				all = false
			}
		}
		if all {
			return true
		}
	}
	return false
}

func vsSetBalancer(k *vsCtl, name int, s *vsSvc) {
	lg := log.NewNopLogger()
	var st controllers.SyncState
	if s == nil {
		st = k.c.SetBalancer(lg, vbSvcName(name), nil, nil)
	} else {
		st = k.c.SetBalancer(lg, vbSvcName(name), vsBuildSvc(name, s), vbBuildEps(vbLayout{Eps: s.Eps}))
	}
	if st != controllers.SyncStateSuccess {
		panic(fmt.Sprintf("SetBalancer returned %v", st))
	}
}

func vsResync(k *vsCtl, w *vsWorld, r *rand.Rand) {
	names := []int{}
	for n := range w.K {
		names = append(names, n)
	}
	sort.Ints(names)
	if r != nil {
		r.Shuffle(len(names), func(i, j int) { names[i], names[j] = names[j], names[i] })
	}
	for _, n := range names {
		vsSetBalancer(k, n, w.K[n])
	}
	w.stale = false
}

// a fresh real controller fed the final cluster state
func vsFresh(h vsHist, k *vsCtl, w *vsWorld) vsObs { return vsFreshWith(h, k, w, nil) }

// extra: Node objects fed in addition to the cluster's (the deleted ones the speaker still remembers)
func vsFreshWith(h vsHist, k *vsCtl, w *vsWorld, extra map[int]*vsNode) vsObs {
	f := vsNewCtl(h.Ignore, &vsSL{disabled: k.sl.disabled, nodes: append([]int(nil), k.sl.nodes...)})
	defer f.a.VerifSpkClose()
	lg := log.NewNopLogger()
	all := map[int]*vsNode{}
	for i, n := range extra {
		all[i] = n
	}
	for i, n := range w.nodes {
		all[i] = n
	}
	idx := []int{}
	for i := range all {
		idx = append(idx, i)
	}
	sort.Ints(idx)
	for _, i := range idx {
		f.c.SetNode(lg, vsBuildNode(all[i]))
	}
	// the cluster's configuration; while a refused one waits to be served again, the one the speaker still runs
	target := w.lastCfg
	if w.pending != nil || target == nil {
		target = w.cfg
	}
	if target != nil {
		f.c.SetConfig(lg, vsBuildCfg(target))
	}
	vsResync(f, &vsWorld{K: w.K}, nil)
	return vsObserve(f)
}

// F9 shape: the history's announcer holds an entry the fresh one lacks (or with
// another interface set), and the current configuration's layer-2 advertisements
// selecting this node for that service's pool match no local interface
func vsF9Shape(w *vsWorld, got, want vsObs) bool {
	gs, _ := json.Marshal(got.Sess)
	ws, _ := json.Marshal(want.Sess)
	if string(gs) != string(ws) || w.cfg == nil {
		return false
	}
	found := false
	for name, ents := range got.L2 {
		wantEnts := map[string]string{}
		for _, e := range want.L2[name] {
			b, _ := json.Marshal(e)
			wantEnts[e.IP] = string(b)
		}
		for _, e := range ents {
			b, _ := json.Marshal(e)
			if wantEnts[e.IP] == string(b) {
				continue
			}
			// a differing entry: its pool must select this node only through non-matching interfaces
			ok := false
			for _, pl := range w.cfg.Pools {
				in := false
				for _, c := range pl.CIDRs {
					_, n, _ := net.ParseCIDR(c)
					if n.Contains(net.ParseIP(e.IP)) {
						in = true
					}
				}
				if !in {
					continue
				}
				sel, match := false, false
				for _, a := range pl.L2 {
					me := false
					for _, n := range a.Nodes {
						if n == 0 {
							me = true
						}
					}
					if !me {
						continue
					}
					sel = true
					if a.All {
						match = true
					}
					for _, i := range a.Ifs {
						for _, l := range vsLocalIfs {
							if i == l {
								match = true
							}
						}
					}
				}
				if sel && !match {
					ok = true
				}
			}
			if !ok {
				return false
			}
			found = true
		}
	}
	// entries the fresh speaker has must all be present in the history's
	for name, ents := range want.L2 {
		have := map[string]bool{}
		for _, e := range got.L2[name] {
			b, _ := json.Marshal(e)
			have[string(b)] = true
		}
		for _, e := range ents {
			b, _ := json.Marshal(e)
			if !have[string(b)] {
				return false
			}
		}
	}
	return found
}

func vsRunHistory(out *vOut, id int, kind string, h vsHist, r *rand.Rand) {
	vbSharedPeerAddr = h.SharedAddr
	defer func() { vbSharedPeerAddr = false }()
	sl := &vsSL{disabled: h.Disabled, nodes: append([]int(nil), h.Speakers...)}
	k := vsNewCtl(h.Ignore, sl)
	defer k.a.VerifSpkClose()
	lg := log.NewNopLogger()
	w := &vsWorld{K: map[int]*vsSvc{}, nodes: map[int]*vsNode{}}
	var steps []string
	var done []vsEv
	failed := false
	failedElig := false
	failedIfs := false
	delNode := false // a deleted node the speaker remembers already explained a difference: later comparisons are not meaningful
	f9 := false
	emit := func(e vsEv) vsObs {
		o := vsObserve(k)
		steps = append(steps, cPair(vsEvCoq(e), vsObsCoq(o)))
		done = append(done, e)
		return o
	}
	fail := func(sig, what string, o vsObs, want any) {
		if !failed {
			failed = true
			out.Fail(sig, fmt.Sprintf("after event %d: %s", len(done)-1, what),
				map[string]any{"history": vsHist{Ignore: h.Ignore, Disabled: h.Disabled, Speakers: h.Speakers, SharedAddr: h.SharedAddr, Evs: done}, "observed": o, "fresh": want})
		}
	}
	for _, e := range h.Evs {
		switch e.Op {
		case "svc":
			w.K[e.Name] = e.Svc
			vsSetBalancer(k, e.Name, e.Svc)
			out.Stat("ev_svc", 1)
		case "del":
			if cur := w.K[e.Name]; cur != nil { // generator side: the deleted Service shares an address with another one
				shares := false
				for j, o := range w.K {
					if j == e.Name || o == nil {
						continue
					}
					for _, a := range cur.IPs {
						for _, b := range o.IPs {
							if a == b {
								shares = true
							}
						}
					}
				}
				if shares {
					out.Stat("gen_del_of_service_sharing_an_address", 1)
				}
			}
			delete(w.K, e.Name)
			vsSetBalancer(k, e.Name, nil)
			out.Stat("ev_del", 1)
		case "cfg":
			// does the new configuration orphan an address of a Service this speaker announces?
			orphan := false
			for n := 0; n < 4; n++ {
				if (k.c.announced[config.BGP][vbSvcName(n)] || k.c.announced[config.Layer2][vbSvcName(n)]) && w.K[n] != nil && !vsHasPool(e.Cfg, w.K[n].IPs) {
					orphan = true
				}
			}
			if orphan {
				out.Stat("ev_cfg_orphaning", 1)
			}
			for n := 0; n < 4; n++ { // generator side: the new configuration has no pool for an existing Service that had one
				if w.K[n] != nil && w.lastCfg != nil && vsHasPool(w.lastCfg, w.K[n].IPs) && !vsHasPool(e.Cfg, w.K[n].IPs) {
					out.Stat("gen_cfg_drops_pool_of_existing_service", 1)
					break
				}
			}
			out.Stat("ev_cfg", 1)
			built := vsBuildCfg(e.Cfg)
			st := k.c.SetConfig(lg, built)
			w.lastCfg = e.Cfg
			if k.c.config == built {
				w.cfg = e.Cfg
			}
			w.pending = nil
			switch st {
			case controllers.SyncStateReprocessAll:
				vsResync(k, w, r)
				out.Stat("ev_cfg_accepted", 1)
			case controllers.SyncStateError:
				w.pending = e.Cfg
				out.Stat("ev_cfg_refused", 1)
				if !orphan && !failed {
					failed = true
					out.Fail("speaker-config-refused-without-orphan",
						fmt.Sprintf("event %d: the configuration was refused although it orphans no address of an announced Service (the speaker stays on the old configuration)", len(done)),
						map[string]any{"history": vsHist{Ignore: h.Ignore, Disabled: h.Disabled, Speakers: h.Speakers, SharedAddr: h.SharedAddr, Evs: append(append([]vsEv{}, done...), e)}})
				}
			default:
				out.Stat("ev_cfg_other_return", 1) // no re-sync requested: the comparison with a fresh speaker decides
			}
		case "nodedel":
			// the Node object disappears from the cluster; the node reconciler ignores NotFound: no handler call
			if nd := w.nodes[e.Node.Idx]; nd != nil {
				if w.deleted == nil {
					w.deleted = map[int]*vsNode{}
				}
				w.deleted[e.Node.Idx] = nd
				delete(w.nodes, e.Node.Idx)
				out.Stat("ev_node_deleted", 1)
			}
		case "node":
			prev, known := w.nodes[e.Node.Idx]
			out.Stat("ev_node", 1)
			if known && (prev.Unavail != e.Node.Unavail || prev.Excl != e.Node.Excl) {
				out.Stat("ev_node_flag_change", 1)
			}
			if !known && len(w.K) > 0 {
				out.Stat("ev_node_first_with_services_present", 1)
			}
			w.nodes[e.Node.Idx] = e.Node
			st := k.c.SetNode(lg, vsBuildNode(e.Node))
			switch st {
			case controllers.SyncStateReprocessAll:
				vsResync(k, w, r)
				out.Stat("ev_node_resync", 1)
			case controllers.SyncStateSuccess:
				if !known && len(w.K) > 0 {
					w.stale = true
					w.staleBy = e.Node.Idx
					out.Stat("ev_node_first_with_services", 1)
				}
				out.Stat("ev_node_plain", 1)
			default:
				out.Stat("ev_node_other_return", 1)
			}
		case "spk":
			sl.disabled, sl.nodes = e.Disabled, append([]int(nil), e.Speakers...)
			vsResync(k, w, r) // ForceSync
			out.Stat("ev_spk", 1)
		case "resync":
			vsResync(k, w, r)
			out.Stat("ev_resync", 1)
		}
		o := emit(e)
		// the work queue of the config reconciler: a request answered with SyncStateError is served again after later events
		if w.pending != nil && e.Op != "cfg" {
			built := vsBuildCfg(w.pending)
			st := k.c.SetConfig(lg, built)
			retried := vsEv{Op: "cfg", Cfg: w.pending}
			if k.c.config == built {
				w.cfg = w.pending
			}
			switch st {
			case controllers.SyncStateReprocessAll:
				w.pending = nil
				vsResync(k, w, r)
				out.Stat("ev_cfg_accepted_on_retry", 1)
			case controllers.SyncStateError:
			default:
				w.pending = nil
			}
			o = emit(retried)
		}
		// ---- oracle 1: nothing is announced for a Service that is gone / not a
		// LoadBalancer / has no or an invalid address / no endpoint that can serve
		bc := k.c.protocolHandlers[config.BGP].(*bgpController)
		for n := 0; n < 4; n++ {
			s := w.K[n]
			gone := s == nil || !s.LB || len(s.IPs) == 0 || s.Invalid
			if !gone {
				any := false
				for _, e := range vbEntries(vbLayout{Eps: s.Eps}) {
					if vbCanServe(e) {
						any = true
					}
				}
				gone = !any
			}
			if gone {
				_, l2 := o.L2[n]
				// BGP: reported as advertised to some peer (exported surface), and - white box, any representation - an entry in svcAds
				b := bc.PeersForService(vbSvcName(n)).Len() > 0
				if keys, ok := vbSvcAdsKeys(bc); ok {
					for _, k := range keys {
						if k == vbSvcName(n) {
							b = true
						}
					}
				} else {
					out.Stat("whitebox_skipped:svcAds", 1)
				}
				if l2 || b {
					fail("speaker-announces-for-gone-service", fmt.Sprintf("service s%d is deleted / not a LoadBalancer / without usable address or endpoints but still announced (layer2=%v bgp=%v)", n, l2, b), o, nil)
				}
				out.Stat("oracle_gone_checks", 1)
			}
		}
		// ---- oracle 2: same announcements as a fresh speaker on the final state
		want := vsFresh(h, k, w)
		out.Stat("oracle_fresh_comparisons", 1)
		if len(want.L2) > 0 {
			out.Stat("fresh_announces_l2", 1)
		}
		for _, ads := range want.Sess {
			if len(ads) > 0 {
				out.Stat("fresh_announces_bgp", 1)
				break
			}
		}
		if w.pending != nil {
			// a refused configuration is pending (the reconciler retries it): the speaker is, by design, still on the
			// previous configuration; `want` is the fresh speaker on that one (hypothesis in_sync of the theorem)
			out.Stat("steps_with_pending_refused_configuration", 1)
		}
		if vsAnnounced(o) != vsAnnounced(want) && !f9 && !delNode && len(w.deleted) > 0 && !w.stale &&
			vsAnnounced(o) == vsAnnounced(vsFreshWith(h, k, w, w.deleted)) {
			// explained by the deleted Node objects the speaker still remembers (recorded finding)
			delNode = true
			out.Stat("deleted_node_hits", 1)
			if !failed {
				out.Fail("speaker-remembers-deleted-node",
					fmt.Sprintf("after event %d: the speaker announces %s, a fresh speaker on the cluster's nodes %s; the difference is the deleted Node object(s) %v the speaker still counts (memberlist disabled: candidates = all nodes ever seen)",
						len(done)-1, vsAnnounced(o), vsAnnounced(want), vsKeys(w.deleted)),
					map[string]any{"history": vsHist{Ignore: h.Ignore, Disabled: h.Disabled, Speakers: h.Speakers, SharedAddr: h.SharedAddr, Evs: done}, "observed": o, "fresh": want})
			}
		}
		if vsAnnounced(o) != vsAnnounced(want) && !f9 && !delNode {
			if w.stale {
				// the missing re-sync after a node's first event: apply it and look again
				vsResync(k, w, r)
				o2 := emit(vsEv{Op: "resync"})
				if vsAnnounced(o2) == vsAnnounced(want) {
					out.Stat("first_node_event_hits", 1)
					if !failed {
						out.Fail("speaker-first-node-event-no-resync",
							fmt.Sprintf("after event %d (first event of node %d, no re-sync requested) the speaker announces %s, a fresh speaker %s; after a re-sync they agree",
								len(done)-2, w.staleBy, vsAnnounced(o), vsAnnounced(want)),
							map[string]any{"history": vsHist{Ignore: h.Ignore, Disabled: h.Disabled, Speakers: h.Speakers, SharedAddr: h.SharedAddr, Evs: done[:len(done)-1]}, "observed": o, "fresh": want})
					}
					continue
				}
				o = o2
			}
			if vsF9Shape(w, o, want) {
				f9 = true // the stale entry stays; later comparisons of this history are not meaningful
				out.Stat("f9_hits", 1)
				if !failed {
					out.Fail("l2-stale-after-interface-mismatch",
						fmt.Sprintf("after event %d the announcer holds %s, a fresh speaker %s (layer-2 advertisement interfaces no longer match a local interface: old announcement kept)",
							len(done)-1, vsAnnounced(o), vsAnnounced(want)),
						map[string]any{"history": vsHist{Ignore: h.Ignore, Disabled: h.Disabled, Speakers: h.Speakers, SharedAddr: h.SharedAddr, Evs: done}, "observed": o, "fresh": want})
				}
			} else {
				fail("speaker-announces-differ-from-fresh", fmt.Sprintf("speaker announces %s, a fresh speaker on the same state %s", vsAnnounced(o), vsAnnounced(want)), o, want)
			}
		}
		// ---- oracle (C10 over histories): at quiescence the routes on every live session are exactly those
		// of the Services this node must announce over BGP by the statement: an advertisement of the
		// address's pool selects this node, the node is not network-unavailable, not labelled excluded
		// (unless told to ignore the label), and the endpoint rule of the traffic policy holds
		if w.cfg != nil {
			eligible := func(f18 bool) *vbWorld {
				ww := &vbWorld{svcs: map[int]vbEv{}}
				kind := 0
				if nd := w.nodes[0]; nd != nil {
					kind = 1
					if nd.Unavail {
						kind = 2
					}
					if nd.Excl {
						kind = 3
					}
					if nd.Unavail && nd.Excl {
						kind = 4
					}
				}
				for n, s := range w.K {
					if !s.LB || s.Invalid || len(s.IPs) == 0 {
						continue
					}
					pi := vsPoolIdx(w.cfg, s.IPs)
					if pi < 0 {
						continue
					}
					lay := vbLayout{Eps: s.Eps}
					for _, a := range w.cfg.Pools[pi].BGP {
						lay.Advs = append(lay.Advs, a.Nodes)
					}
					fl := vbFlags{Node: kind, Ignore: h.Ignore, Local: s.Local}
					ok := vbLiteral(lay, fl)
					if !ok && f18 && vbF18Shape(lay, fl) {
						fl2 := fl
						fl2.Local = false
						ok = vbLiteral(lay, fl2) // F18: decided as for Cluster plus "some address served here"
					}
					if ok {
						ww.svcs[n] = vbEv{Op: "set", Svc: n, IPs: s.IPs, Advs: w.cfg.Pools[pi].BGP}
						out.Stat("elig_services_expected_over_bgp", 1)
					}
				}
				return ww
			}
			differs := func(ww *vbWorld) (int, string, string) {
				for pn, got := range o.Sess {
					wantAds := vbSortAds(vbIntended(ww, pn))
					gb, _ := json.Marshal(got)
					wb, _ := json.Marshal(wantAds)
					if string(gb) != string(wb) {
						return pn, string(gb), string(wb)
					}
				}
				return -1, "", ""
			}
			out.Stat("elig_history_checks", 1)
			if pn, gb, wb := differs(eligible(false)); pn >= 0 && !failedElig {
				if p2, _, _ := differs(eligible(true)); p2 < 0 {
					failedElig = true
					out.Stat("elig_f18_hits", 1)
					out.Fail("bgp-local-duplicate-address-across-nodes",
						fmt.Sprintf("after event %d: peer %d is offered %s, the eligibility rule of the statement gives %s (Local policy, address served here has a non-serving entry on another node)", len(done)-1, pn, gb, wb),
						map[string]any{"history": vsHist{Ignore: h.Ignore, Disabled: h.Disabled, Speakers: h.Speakers, SharedAddr: h.SharedAddr, Evs: done}})
				} else {
					failedElig = true
					out.Fail("bgp-announced-state-differs-from-eligibility",
						fmt.Sprintf("after event %d: peer %d is offered %s, but by the statement's eligibility rule (advertisement selects the node, not network-unavailable, not excluded unless ignored, endpoint rule) it must be offered %s", len(done)-1, pn, gb, wb),
						map[string]any{"history": vsHist{Ignore: h.Ignore, Disabled: h.Disabled, Speakers: h.Speakers, SharedAddr: h.SharedAddr, Evs: done}, "observed": o})
				}
			}
		}
		// ---- oracle (C13 through the controller): the interfaces of every layer-2 entry are those of the
		// advertisements of the address's pool that select THIS node (all interfaces if one of them is
		// unrestricted, else the union of their lists).  Entries kept by F9 (the selecting advertisements
		// match no local interface) are the recorded finding and are skipped.
		if w.cfg != nil {
			// generator-side coverage counters (inputs only)
			for _, s := range w.K {
				if s == nil || s.Invalid || len(s.IPs) == 0 || !s.LB {
					continue
				}
				pi := vsPoolIdx(w.cfg, s.IPs)
				if pi < 0 {
					continue
				}
				for _, a := range w.cfg.Pools[pi].L2 {
					for _, x := range a.Nodes {
						if x == 0 {
							out.Stat("gen_l2_advertisement_selects_this_node", 1)
							if !a.All && len(a.Ifs) > 0 {
								out.Stat("gen_l2_advertisement_with_interface_list_selects_this_node", 1)
							}
						}
					}
				}
			}
			for n, ents := range o.L2 {
				s := w.K[n]
				if s == nil || s.Invalid || len(s.IPs) == 0 {
					continue
				}
				pi := vsPoolIdx(w.cfg, s.IPs)
				if pi < 0 {
					continue
				}
				all, ifs, local := false, map[int]bool{}, false
				for _, a := range w.cfg.Pools[pi].L2 {
					me := false
					for _, x := range a.Nodes {
						if x == 0 {
							me = true
						}
					}
					if !me {
						continue
					}
					if a.All {
						all = true
					}
					for _, i := range a.Ifs {
						ifs[i] = true
					}
				}
				wantIfs := []int{}
				if !all {
					for i := range ifs {
						wantIfs = append(wantIfs, i)
						for _, l := range vsLocalIfs {
							if l == i {
								local = true
							}
						}
					}
					sort.Ints(wantIfs)
				}
				if !all && !local {
					continue // F9 shape
				}
				for _, en := range ents {
					out.Stat("l2_interface_checks", 1)
					if !all {
						out.Stat("l2_interface_checks_with_lists", 1)
					}
					if (en.All != all || fmt.Sprint(en.Ifs) != fmt.Sprint(wantIfs)) && !failedIfs {
						failedIfs = true
						out.Fail("l2-entry-interfaces-differ-from-advertisements",
							fmt.Sprintf("after event %d: s%d %s is announced on (all=%v, interfaces %v), the advertisements selecting this node say (all=%v, interfaces %v)",
								len(done)-1, n, en.IP, en.All, en.Ifs, all, wantIfs),
							map[string]any{"history": vsHist{Ignore: h.Ignore, Disabled: h.Disabled, Speakers: h.Speakers, SharedAddr: h.SharedAddr, Evs: done}})
					}
				}
			}
		}
		// responder decision per address and local interface follows the contents
		for name, ents := range o.L2 {
			for _, en := range ents {
				for _, li := range vsLocalIfs {
					wantAns := en.All
					for _, i := range en.Ifs {
						if i == li {
							wantAns = true
						}
					}
					gotAns := k.a.VerifSpkAnswers(net.ParseIP(en.IP), vsIfNames[li])
					if wantAns && !gotAns {
						fail("l2-announced-address-not-answered", fmt.Sprintf("s%d %s on %s", name, en.IP, vsIfNames[li]), o, nil)
					}
				}
			}
		}
	}
	out.Stat("histories", 1)
	out.Stat("events", len(done))
	spk := cNone
	if !h.Disabled {
		spk = cSome(cListN(h.Speakers))
	}
	hh := h
	hh.Evs = done
	out.Case(id, kind, cCtor("mk_scase", cNi(id), cBool(h.Ignore), cListN(vsLocalIfs), "HT", spk, cList(steps)), hh)
}


// ---------------------------------------------------------------- election-focused histories
// All nodes are known before any service, the layer-2 advertisements select several
// nodes on all interfaces, then conditions / exclude labels of the nodes (mostly
// OTHER nodes than the observed speaker) flip in both directions, interleaved with
// service events, speaker-list changes and advertisement node-set changes.
// No first node event after services (F25), no interface lists (F9), one address per
// service (F8): so that the multi-speaker oracle below has no recorded exception.

func vsElectCfg(r *rand.Rand) *vsCfg { return vsElectCfgN(r, 2) }

func vsElectCfgN(r *rand.Rand, npools int) *vsCfg {
	c := &vsCfg{Peers: []vbPeer{{Name: 0, Sels: [][][2]int{}}}}
	for p := 0; p < npools; p++ {
		pl := vsPool{CIDRs: []string{"10.20.30.0/24", "fc00:30::/64"}}
		if p == 1 {
			pl.CIDRs = []string{"10.20.31.0/24", "fc00:31::/64"}
		}
		nodes := []int{}
		for i := 0; i < 3; i++ {
			if r.Intn(5) != 0 {
				nodes = append(nodes, i)
			}
		}
		pl.L2 = []vsL2Adv{{Nodes: nodes, Ifs: []int{}, All: true}}
		if r.Intn(2) == 0 {
			pl.BGP = []vbBAdv{{Agg4: 32, Agg6: 128, LP: 100, Comms: []int{}, Nodes: nodes, NodeFalse: []int{}, Peers: []int{}}}
		}
		c.Pools = append(c.Pools, pl)
	}
	return c
}

// the addresses of service k in the election histories (no address is shared between services: F8)
var vsElectAddrs = [][]string{
	{"10.20.30.1", "fc00:30::1", "10.20.30.11"},
	{"10.20.30.2", "fc00:30::2", "10.20.30.12"},
	{"10.20.31.1", "fc00:31::1", "10.20.31.11"},
}
var vsElectIPs = []string{"10.20.30.1", "10.20.30.2", "10.20.30.11", "10.20.30.12", "10.20.31.1", "10.20.31.11", "fc00:30::1", "fc00:30::2", "fc00:31::1"}

// one or two distinct addresses of service k, in any order
func vsElectIPsOf(r *rand.Rand, k int) []string {
	a := vsElectAddrs[k]
	p := r.Perm(3)
	if r.Intn(2) == 0 {
		return []string{a[p[0]]}
	}
	return []string{a[p[0]], a[p[1]]}
}

func vsElectSvc(r *rand.Rand, k int) *vsSvc {
	s := &vsSvc{LB: true, Local: r.Intn(3) == 0, IPs: vsElectIPsOf(r, k)}
	T := true
	for ne := 1 + r.Intn(3); ne > 0; ne-- {
		s.Eps = append(s.Eps, []vbEP{{Ready: &T, Node: r.Intn(3), Addrs: []int{1 + r.Intn(2)}}})
	}
	return s
}

func vsGenElectHist(r *rand.Rand) vsHist {
	h := vsHist{Ignore: r.Intn(3) == 0}
	if r.Intn(4) == 0 {
		h.Disabled = true
	} else {
		h.Speakers = []int{0, 1, 2}
	}
	var node [3]*vsNode
	for i := 0; i < 3; i++ {
		node[i] = &vsNode{Idx: i, Labels: vbGenLabels(r), LblVal: r.Intn(4)}
		if h.Ignore && r.Intn(3) != 0 { // labelled nodes under ignoreExcludeLB
			node[i].Excl = true
		}
		h.Evs = append(h.Evs, vsEv{Op: "node", Node: node[i]})
	}
	h.Evs = append(h.Evs, vsEv{Op: "cfg", Cfg: vsElectCfg(r)})
	var last [4]*vsSvc
	for k := 0; k < 3; k++ {
		last[k] = vsElectSvc(r, k)
		h.Evs = append(h.Evs, vsEv{Op: "svc", Name: k, Svc: last[k]})
	}
	var gone [3]bool
	curSpk := append([]int(nil), h.Speakers...)
	flip := func(idx int) {
		if gone[idx] {
			idx = 0
		}
		c := *node[idx]
		if r.Intn(3) != 0 || (h.Ignore && r.Intn(2) == 0) {
			c.Unavail = !c.Unavail
		} else {
			c.Excl = !c.Excl
		}
		node[idx] = &c
		h.Evs = append(h.Evs, vsEv{Op: "node", Node: &c})
	}
	for n := 6 + r.Intn(10); n > 0; n-- {
		x := r.Intn(100)
		switch {
		case x < 40:
			flip(1 + r.Intn(2)) // another node
		case x < 50:
			flip(0)
		case x < 80: // a service event (the same service again, or changed)
			k := r.Intn(3)
			switch r.Intn(3) {
			case 0:
				last[k] = vsElectSvc(r, k)
			case 1: // only the address set changes: shrinks, grows, is reordered, swaps one address
				c := *last[k]
				c.IPs = vsElectIPsOf(r, k)
				last[k] = &c
			}
			h.Evs = append(h.Evs, vsEv{Op: "svc", Name: k, Svc: last[k]})
		case x < 86:
			k := r.Intn(3)
			h.Evs = append(h.Evs, vsEv{Op: "del", Name: k}, vsEv{Op: "svc", Name: k, Svc: last[k]})
		case x < 90:
			if !h.Disabled {
				var l []int
				for i := 0; i < 3; i++ {
					if r.Intn(4) != 0 && !gone[i] {
						l = append(l, i)
					}
				}
				curSpk = l
				h.Evs = append(h.Evs, vsEv{Op: "spk", Speakers: l})
			}
		case x < 93:
			// a node is removed from the cluster: with memberlist its speaker leaves the list, then the Node object is deleted
			idx := 1 + r.Intn(2)
			if !gone[idx] {
				gone[idx] = true
				if !h.Disabled {
					var l []int
					for _, i := range curSpk {
						if i != idx {
							l = append(l, i)
						}
					}
					curSpk = l
					h.Evs = append(h.Evs, vsEv{Op: "spk", Speakers: l})
				}
				h.Evs = append(h.Evs, vsEv{Op: "nodedel", Node: &vsNode{Idx: idx}})
			}
		case x < 97:
			h.Evs = append(h.Evs, vsEv{Op: "cfg", Cfg: vsElectCfg(r)})
		default:
			// ONE configuration change deletes the second pool (its Service s2 may be announced somewhere: that speaker
			// refuses) and re-deals the layer-2 node sets; then the controller clears s2's address; later the pool is back
			h.Evs = append(h.Evs, vsEv{Op: "cfg", Cfg: vsElectCfgN(r, 1)})
			if r.Intn(3) != 0 {
				flip(r.Intn(3))
			}
			c := *last[2]
			c.IPs = []string{}
			last[2] = &c
			h.Evs = append(h.Evs, vsEv{Op: "svc", Name: 2, Svc: &c})
			if r.Intn(2) == 0 {
				h.Evs = append(h.Evs, vsEv{Op: "cfg", Cfg: vsElectCfg(r)})
				last[2] = vsElectSvc(r, 2)
				h.Evs = append(h.Evs, vsEv{Op: "svc", Name: 2, Svc: last[2]})
			}
		}
	}
	flip(1 + r.Intn(2)) // ends right after the flip of another node
	return h
}

// first address (of the election alphabet) for which node `winner` has a smaller hash than node `loser`
func vsAddrWonBy(winner, loser int) string {
	for _, ip := range vsElectIPs {
		a := sha256.Sum256([]byte(vbNodeNames[winner] + "#" + net.ParseIP(ip).String()))
		b := sha256.Sum256([]byte(vbNodeNames[loser] + "#" + net.ParseIP(ip).String()))
		if string(a[:]) < string(b[:]) {
			return ip
		}
	}
	panic("no address")
}

// the owner of an address loses eligibility, gets it back; the flips are on the node whose speaker is NOT observed
func vsOwnerFlipHist(other int, labelled bool) vsHist {
	T := true
	ip := vsAddrWonBy(other, 0)
	svc := &vsSvc{LB: true, IPs: []string{ip}, Eps: [][]vbEP{{{Ready: &T, Node: 0, Addrs: []int{1}}, {Ready: &T, Node: other, Addrs: []int{2}}}}}
	cidr := "10.20.30.0/24"
	if vsPoolIdx(&vsCfg{Pools: []vsPool{{CIDRs: []string{cidr}}}}, []string{ip}) < 0 {
		cidr = "10.20.31.0/24"
		if vsPoolIdx(&vsCfg{Pools: []vsPool{{CIDRs: []string{cidr}}}}, []string{ip}) < 0 {
			cidr = "fc00:30::/64"
			if vsPoolIdx(&vsCfg{Pools: []vsPool{{CIDRs: []string{cidr}}}}, []string{ip}) < 0 {
				cidr = "fc00:31::/64"
			}
		}
	}
	nd := func(i int, un, ex bool) *vsNode { return &vsNode{Idx: i, Unavail: un, Excl: ex} }
	if labelled { // the speakers ignore the exclude label, every node carries it throughout; only the network condition flips
		lb := func(i int, un bool) *vsNode { return &vsNode{Idx: i, Unavail: un, Excl: true, LblVal: i} }
		return vsHist{Ignore: true, Speakers: []int{0, other}, Evs: []vsEv{
			{Op: "node", Node: lb(0, false)}, {Op: "node", Node: lb(other, false)},
			{Op: "cfg", Cfg: &vsCfg{Pools: []vsPool{{CIDRs: []string{cidr}, L2: []vsL2Adv{{Nodes: []int{0, other}, Ifs: []int{}, All: true}}}}}},
			{Op: "svc", Name: 0, Svc: svc},
			{Op: "node", Node: lb(other, true)},
			{Op: "node", Node: lb(other, false)},
			{Op: "node", Node: lb(0, true)},
			{Op: "node", Node: lb(other, true)},
			{Op: "node", Node: lb(0, false)},
		}}
	}
	return vsHist{Speakers: []int{0, other}, Evs: []vsEv{
		{Op: "node", Node: nd(0, false, false)}, {Op: "node", Node: nd(other, false, false)},
		{Op: "cfg", Cfg: &vsCfg{Pools: []vsPool{{CIDRs: []string{cidr}, L2: []vsL2Adv{{Nodes: []int{0, other}, Ifs: []int{}, All: true}}}}}},
		{Op: "svc", Name: 0, Svc: svc},
		{Op: "node", Node: nd(other, true, false)},  // the owner's network goes away: this node must take over
		{Op: "svc", Name: 0, Svc: svc},              // a service event
		{Op: "node", Node: nd(other, false, false)}, // the owner recovers: this node must withdraw
		{Op: "node", Node: nd(other, false, true)},  // the owner gets the exclude label
		{Op: "node", Node: nd(other, false, false)},
	}}
}

// ---------------------------------------------------------------- several speakers
// One real controller (with its real layer2Controller and announcer) per node, a
// shared speaker list, every event delivered to all of them, each re-syncing only
// when ITS handler asks for it (ReprocessAll / ForceSync).  At quiescence, C04:
// every layer-2 address of a Service is announced by exactly one node, the elected
// one (eligibility and hash order computed here from the statement), nobody
// announces when no node is eligible.

func vsRunMulti(out *vOut, kind string, h vsHist, r *rand.Rand) {
	sl := &vsSL{disabled: h.Disabled, nodes: append([]int(nil), h.Speakers...)}
	var ks [3]*vsCtl
	for i := range ks {
		ks[i] = vsNewCtlFor(i, h.Ignore, sl)
		defer ks[i].a.VerifSpkClose()
	}
	lg := log.NewNopLogger()
	w := &vsWorld{K: map[int]*vsSvc{}, nodes: map[int]*vsNode{}}
	var done []vsEv
	failed := false
	delNode := false
	var pend [3]*vsCfg // per speaker: the configuration it refused with SyncStateError (requeued)
	resync := func(k *vsCtl) {
		names := []int{}
		for n := range w.K {
			names = append(names, n)
		}
		sort.Ints(names)
		r.Shuffle(len(names), func(i, j int) { names[i], names[j] = names[j], names[i] })
		for _, n := range names {
			vsSetBalancer(k, n, w.K[n])
		}
	}
	for _, e := range h.Evs {
		order := r.Perm(3) // the speakers see the event in some order
		switch e.Op {
		case "svc":
			w.K[e.Name] = e.Svc
		case "del":
			delete(w.K, e.Name)
		case "node":
			w.nodes[e.Node.Idx] = e.Node
		case "nodedel":
			if nd := w.nodes[e.Node.Idx]; nd != nil {
				if w.deleted == nil {
					w.deleted = map[int]*vsNode{}
				}
				w.deleted[e.Node.Idx] = nd // the node and its speaker are gone; the other speakers are not told
				delete(w.nodes, e.Node.Idx)
				out.Stat("multi_node_deleted", 1)
			}
		case "cfg":
			w.cfg = e.Cfg
		case "spk":
			sl.disabled, sl.nodes = e.Disabled, append([]int(nil), e.Speakers...)
		}
		for _, i := range order {
			k := ks[i]
			if w.deleted[i] != nil || e.Op == "nodedel" {
				continue // a removed node runs no speaker; a Node deletion reaches no handler
			}
			switch e.Op {
			case "svc":
				vsSetBalancer(k, e.Name, e.Svc)
			case "del":
				vsSetBalancer(k, e.Name, nil)
			case "node":
				if k.c.SetNode(lg, vsBuildNode(e.Node)) == controllers.SyncStateReprocessAll {
					resync(k)
				}
			case "cfg":
				pend[i] = nil
				switch k.c.SetConfig(lg, vsBuildCfg(e.Cfg)) {
				case controllers.SyncStateReprocessAll:
					resync(k)
				case controllers.SyncStateError:
					// refused: the config reconciler forgets its memo and the request is served again later
					pend[i] = e.Cfg
					out.Stat("multi_cfg_refused", 1)
				}
			default: // speaker-list change (ForceSync) or any other full re-sync
				resync(k)
			}
		}
		// the requeued configuration requests are served again after the event
		if e.Op != "cfg" {
			for i, k := range ks {
				if pend[i] != nil && w.deleted[i] == nil {
					switch k.c.SetConfig(lg, vsBuildCfg(pend[i])) {
					case controllers.SyncStateReprocessAll:
						pend[i] = nil
						resync(k)
						out.Stat("multi_cfg_accepted_on_retry", 1)
					case controllers.SyncStateError:
					default:
						pend[i] = nil
					}
				}
			}
		}
		done = append(done, e)
		out.Stat("multi_events", 1)
		if w.cfg == nil {
			continue
		}
		waiting := false
		for i := range ks {
			if pend[i] != nil && w.deleted[i] == nil {
				waiting = true
			}
		}
		if waiting {
			// some speaker refused the last configuration and will be served again: the speakers do not share one
			// view until the blocking Service is released
			out.Stat("multi_steps_with_pending_configuration", 1)
			continue
		}
		// ---- C04 at quiescence, per ADDRESS: every address answered by some node is held by a Service of
		// the current view and answered exactly by that Service's elected node; an address of a Service with
		// an eligible node is answered; nothing else is
		got := map[string][]int{} // address -> nodes whose announcer holds it (under any service)
		for i, k := range ks {
			if w.deleted[i] != nil {
				continue
			}
			seen := map[string]bool{}
			for _, ents := range k.a.VerifSpkDump() {
				for _, en := range ents {
					if !seen[en.IP] {
						seen[en.IP] = true
						got[en.IP] = append(got[en.IP], i)
					}
				}
			}
		}
		expected := func(remembered bool) (map[string][]int, map[string]int) {
			want := map[string][]int{}
			holder := map[string]int{}
			for n, s := range w.K {
				var elig []int
				pi := -1
				if s.LB && !s.Invalid && len(s.IPs) > 0 {
					pi = vsPoolIdx(w.cfg, s.IPs)
				}
				if pi >= 0 {
					anyEp := false
					for _, ep := range vbEntries(vbLayout{Eps: s.Eps}) {
						if vbCanServe(ep) {
							anyEp = true
						}
					}
					for i := 0; i < 3 && anyEp; i++ {
						nd := w.nodes[i]
						if nd == nil && remembered {
							nd = w.deleted[i] // a deleted Node object the speakers still hold
						}
						speaker := nd != nil
						if !sl.disabled {
							speaker = false
							for _, x := range sl.nodes {
								if x == i {
									speaker = true
								}
							}
						}
						sel := false
						for _, a := range w.cfg.Pools[pi].L2 {
							for _, x := range a.Nodes {
								if x == i {
									sel = true
								}
							}
						}
						here := !s.Local
						for _, ep := range vbEntries(vbLayout{Eps: s.Eps}) {
							if vbCanServe(ep) && ep.Node == i {
								here = true
							}
						}
						if speaker && sel && here && !(nd != nil && nd.Unavail) && !(nd != nil && nd.Excl && !h.Ignore) {
							elig = append(elig, i)
						}
					}
				}
				if len(elig) > 0 {
					best, bh := -1, ""
					for _, i := range elig {
						d := sha256.Sum256([]byte(vbNodeNames[i] + "#" + net.ParseIP(s.IPs[0]).String()))
						if best < 0 || string(d[:]) < bh {
							best, bh = i, string(d[:])
						}
					}
					for _, ip := range s.IPs {
						c := net.ParseIP(ip).String()
						want[c] = []int{best}
						if w.deleted[best] != nil {
							want[c] = nil // the elected node is gone: nobody answers
						}
						holder[c] = n
					}
					if !remembered {
						out.Stat("multi_elections", 1)
						if len(elig) > 1 {
							out.Stat("multi_contested_elections", 1)
						}
						if len(s.IPs) > 1 {
							out.Stat("multi_dual_address_services", 1)
						}
					}
				}
				if !remembered {
					out.Stat("multi_service_checks", 1)
				}
			}
			return want, holder
		}
		want, holder := expected(false)
		// recorded finding: with memberlist disabled a deleted node stays a candidate of the other speakers' elections
		if sl.disabled && len(w.deleted) > 0 && !delNode {
			w2, _ := expected(true)
			same := func(x map[string][]int) bool {
				keys := map[string]bool{}
				for a := range got {
					keys[a] = true
				}
				for a := range x {
					keys[a] = true
				}
				for a := range keys {
					if fmt.Sprint(got[a]) != fmt.Sprint(x[a]) {
						return false
					}
				}
				return true
			}
			if !same(want) && same(w2) {
				delNode = true
				out.Stat("multi_deleted_node_hits", 1)
				if !failed {
					out.Fail("l2-deleted-node-still-candidate",
						fmt.Sprintf("several speakers, after event %d (%s): the layer-2 answers %v are those of elections in which the deleted node(s) %v still take part (memberlist disabled: candidates = all nodes ever seen); on the cluster's nodes they would be %v",
							len(done)-1, e.Op, got, vsKeys(w.deleted), want),
						map[string]any{"multi_history": vsHist{Ignore: h.Ignore, Disabled: h.Disabled, Speakers: h.Speakers, SharedAddr: h.SharedAddr, Evs: done}})
				}
			}
		}
		if delNode {
			continue
		}
		addrs := map[string]bool{}
		for a := range got {
			addrs[a] = true
		}
		for a := range want {
			addrs[a] = true
		}
		for a := range addrs {
			out.Stat("multi_address_checks", 1)
			if fmt.Sprint(got[a]) != fmt.Sprint(want[a]) && !failed {
				failed = true
				sig := "l2-announcers-differ-from-election"
				if len(got[a]) > 1 {
					sig = "l2-two-announcers-after-node-flip"
				}
				hs := "no Service of the current view holds it"
				if n, ok := holder[a]; ok {
					hs = fmt.Sprintf("held by s%d %v, elected %v", n, w.K[n].IPs, want[a])
				}
				out.Fail(sig, fmt.Sprintf("several speakers, after event %d (%s): address %s is answered over layer 2 by nodes %v; %s",
					len(done)-1, e.Op, a, got[a], hs),
					map[string]any{"multi_history": vsHist{Ignore: h.Ignore, Disabled: h.Disabled, Speakers: h.Speakers, SharedAddr: h.SharedAddr, Evs: done}})
			}
		}
	}
	out.Stat("multi_histories", 1)
}

// TestVerifSpkMulti: the several-speakers part alone (used by C04 / C12 / C09)
func TestVerifSpkMulti(t *testing.T) {
	out := vOpen()
	defer out.Close()
	r := vRand()
	n := vN(30)
	// a pool is deleted while its Service is announced and the other pool's advertisement moves to another node:
	// the announcing speaker refuses, the controller then clears the address, the requeued configuration is accepted
	{
		T := true
		ipA, ipB := vsAddrWonBy(0, 1), "10.20.31.1" // s1's address is won by node 0 while both nodes are eligible
		if vsPoolIdx(&vsCfg{Pools: []vsPool{{CIDRs: []string{"10.20.30.0/24", "fc00:30::/64"}}}}, []string{ipA}) < 0 {
			ipA = "10.20.30.1"
		}
		ep := [][]vbEP{{{Ready: &T, Node: 0, Addrs: []int{1}}, {Ready: &T, Node: 1, Addrs: []int{2}}}}
		p1 := func(nodes ...int) vsPool {
			return vsPool{CIDRs: []string{"10.20.30.0/24", "fc00:30::/64"}, L2: []vsL2Adv{{Nodes: nodes, Ifs: []int{}, All: true}}}
		}
		p2 := vsPool{CIDRs: []string{"10.20.31.0/24"}, L2: []vsL2Adv{{Nodes: []int{0}, Ifs: []int{}, All: true}}}
		vsRunMulti(out, "corpus-pool-deleted-while-announced", vsHist{Speakers: []int{0, 1}, Evs: []vsEv{
			{Op: "node", Node: &vsNode{Idx: 0}}, {Op: "node", Node: &vsNode{Idx: 1}},
			{Op: "cfg", Cfg: &vsCfg{Pools: []vsPool{p1(0), p2}}},
			{Op: "svc", Name: 1, Svc: &vsSvc{LB: true, IPs: []string{ipA}, Eps: ep}},
			{Op: "svc", Name: 2, Svc: &vsSvc{LB: true, IPs: []string{ipB}, Eps: ep}},
			{Op: "cfg", Cfg: &vsCfg{Pools: []vsPool{p1(1)}}}, // p2 deleted, p1's advertisement moves from node 0 to node 1
			{Op: "svc", Name: 2, Svc: &vsSvc{LB: true, IPs: []string{}, Eps: ep}}, // the controller clears the address
			{Op: "svc", Name: 1, Svc: &vsSvc{LB: true, IPs: []string{ipA}, Eps: ep}},
		}}, r)
	}
	gone := vsOwnerFlipHist(1, false)
	gone.Disabled, gone.Speakers = true, nil
	gone.Evs = append(gone.Evs[:4:4], vsEv{Op: "nodedel", Node: &vsNode{Idx: 1}}, vsEv{Op: "resync"}, gone.Evs[3])
	vsRunMulti(out, "corpus-deleted-node", gone, r)
	for _, other := range []int{1, 2} {
		vsRunMulti(out, "corpus-owner-flip", vsOwnerFlipHist(other, false), r)
		vsRunMulti(out, "corpus-labelled-owner-flip", vsOwnerFlipHist(other, true), r)
	}
	if rp := os.Getenv("VERIF_REPLAY"); rp != "" {
		if b, err := os.ReadFile(rp); err == nil {
			var x struct {
				Replay struct {
					History *vsHist `json:"multi_history"`
				} `json:"replay"`
			}
			if json.Unmarshal(b, &x) == nil && x.Replay.History != nil {
				vsRunMulti(out, "replay", *x.Replay.History, r)
			}
		}
	}
	for i := 0; i < n; i++ {
		vsRunMulti(out, "random", vsGenElectHist(r), r)
	}
}

func TestVerifSpk(t *testing.T) {
	out := vOpen()
	defer out.Close()
	r := vRand()
	n := vN(40)
	// the hash table (sha256 of "<node>#<address>") is shipped once
	out.rec(map[string]any{"t": "header", "coq": "Definition HT := " + vsHashCoq() + "."})
	id := 0
	T := true
	all := []vsL2Adv{{Nodes: []int{0}, All: true}}
	eps := [][]vbEP{{{Ready: &T, Node: 0, Addrs: []int{1}}}}
	// corpus: F9 witness first
	f9 := vsHist{Speakers: []int{0}, Evs: []vsEv{
		{Op: "node", Node: &vsNode{Idx: 0}},
		{Op: "cfg", Cfg: &vsCfg{Pools: []vsPool{{CIDRs: []string{"10.20.30.0/24"}, L2: all}}}},
		{Op: "svc", Name: 0, Svc: &vsSvc{LB: true, IPs: []string{"10.20.30.1"}, Eps: eps}},
		{Op: "cfg", Cfg: &vsCfg{Pools: []vsPool{{CIDRs: []string{"10.20.30.0/24"}, L2: []vsL2Adv{{Nodes: []int{0}, Ifs: []int{9}}}}}}},
	}}
	id++
	vsRunHistory(out, id, "corpus-f9", f9, r)
	// the first event of a node requests no re-sync: this node turns out to be network-unavailable
	// after its services were announced (a nil node counts as available)
	f25 := vsHist{Speakers: []int{0}, Evs: []vsEv{
		{Op: "cfg", Cfg: &vsCfg{Pools: []vsPool{{CIDRs: []string{"10.20.30.0/24"}, L2: all,
			BGP: []vbBAdv{{Agg4: 32, Agg6: 128, Nodes: []int{0}}}}}, Peers: []vbPeer{{Name: 0, Sels: [][][2]int{}}}}},
		{Op: "svc", Name: 0, Svc: &vsSvc{LB: true, IPs: []string{"10.20.30.1"}, Eps: eps}},
		{Op: "node", Node: &vsNode{Idx: 0, Unavail: true}},
		{Op: "svc", Name: 1, Svc: &vsSvc{LB: true, IPs: []string{"10.20.30.2"}, Eps: eps}},
	}}
	id++
	vsRunHistory(out, id, "corpus-first-node-event", f25, r)
	// a peer whose node selector starts (then stops) matching through label-only Node updates after the
	// service was announced over BGP: the session is created from SetNode, which requests no re-sync
	bgpAdv := []vbBAdv{{Agg4: 32, Agg6: 128, Nodes: []int{0}}}
	selPeer := vsHist{Speakers: []int{0}, Evs: []vsEv{
		{Op: "node", Node: &vsNode{Idx: 0, Labels: [][2]int{{0, 0}}}},
		{Op: "cfg", Cfg: &vsCfg{Pools: []vsPool{{CIDRs: []string{"10.20.30.0/24"}, BGP: bgpAdv}},
			Peers: []vbPeer{{Name: 0, Sels: [][][2]int{}}, {Name: 1, Sels: [][][2]int{{{0, 1}}}}}}},
		{Op: "svc", Name: 0, Svc: &vsSvc{LB: true, IPs: []string{"10.20.30.1"}, Eps: eps}},
		{Op: "node", Node: &vsNode{Idx: 0, Labels: [][2]int{{0, 1}}}},
		{Op: "node", Node: &vsNode{Idx: 0, Labels: [][2]int{{0, 0}}}},
		{Op: "node", Node: &vsNode{Idx: 0, Labels: [][2]int{{0, 1}, {1, 0}}}},
	}}
	id++
	vsRunHistory(out, id, "corpus-selector-starts-matching", selPeer, r)
	// ignoreExcludeLB: this node carries the exclude label throughout and announces (layer 2 and BGP);
	// its network goes away and comes back: each flip must re-run the decisions
	lblNode := func(un bool) *vsNode { return &vsNode{Idx: 0, Excl: true, Unavail: un, LblVal: 1} }
	labelledHist := vsHist{Ignore: true, Speakers: []int{0, 1}, Evs: []vsEv{
		{Op: "node", Node: lblNode(false)},
		{Op: "node", Node: &vsNode{Idx: 1, Excl: true}},
		{Op: "cfg", Cfg: &vsCfg{Pools: []vsPool{{CIDRs: []string{"10.20.30.0/24"}, BGP: bgpAdv, L2: []vsL2Adv{{Nodes: []int{0}, All: true}}}},
			Peers: []vbPeer{{Name: 0, Sels: [][][2]int{}}}}},
		{Op: "svc", Name: 0, Svc: &vsSvc{LB: true, IPs: []string{"10.20.30.1"}, Eps: eps}},
		{Op: "node", Node: lblNode(true)},
		{Op: "node", Node: lblNode(false)},
		{Op: "node", Node: lblNode(true)},
	}}
	id++
	vsRunHistory(out, id, "corpus-labelled-node-network-flips", labelledHist, r)
	// the address set of a Service shrinks, is reordered, grows, swaps one address
	svcIPs := func(ips ...string) *vsSvc { return &vsSvc{LB: true, IPs: ips, Eps: eps} }
	dualPool := &vsCfg{Pools: []vsPool{{CIDRs: []string{"10.20.30.0/24", "fc00:30::/64"}, BGP: bgpAdv, L2: all}}, Peers: []vbPeer{{Name: 0, Sels: [][][2]int{}}}}
	edits := vsHist{Speakers: []int{0}, Evs: []vsEv{
		{Op: "node", Node: &vsNode{Idx: 0}}, {Op: "cfg", Cfg: dualPool},
		{Op: "svc", Name: 0, Svc: svcIPs("10.20.30.1", "fc00:30::1")},
		{Op: "svc", Name: 0, Svc: svcIPs("10.20.30.1")},
		{Op: "svc", Name: 0, Svc: svcIPs("10.20.30.1", "fc00:30::1")},
		{Op: "svc", Name: 0, Svc: svcIPs("fc00:30::1")},
		{Op: "svc", Name: 0, Svc: svcIPs("fc00:30::1", "10.20.30.2")},
		{Op: "svc", Name: 0, Svc: svcIPs("10.20.30.2", "fc00:30::1")},
		{Op: "svc", Name: 0, Svc: svcIPs("10.20.30.2", "10.20.30.200")},
		{Op: "svc", Name: 1, Svc: svcIPs("fc00:30::1")},
	}}
	id++
	vsRunHistory(out, id, "corpus-address-set-edits", edits, r)
	// several Services hold one address (address sharing): one of them is deleted / stops being a LoadBalancer /
	// changes its addresses while the others keep the address; later the last holder goes too
	sharing := vsHist{Speakers: []int{0}, Evs: []vsEv{
		{Op: "node", Node: &vsNode{Idx: 0}}, {Op: "cfg", Cfg: dualPool},
		{Op: "svc", Name: 0, Svc: svcIPs("10.20.30.1", "fc00:30::1")},
		{Op: "svc", Name: 1, Svc: svcIPs("10.20.30.1")},
		{Op: "svc", Name: 2, Svc: svcIPs("10.20.30.1", "10.20.30.2")},
		{Op: "del", Name: 0},
		{Op: "svc", Name: 0, Svc: svcIPs("fc00:30::1", "10.20.30.2")},
		{Op: "svc", Name: 2, Svc: &vsSvc{LB: false, IPs: []string{"10.20.30.1", "10.20.30.2"}, Eps: eps}},
		{Op: "del", Name: 1},
		{Op: "svc", Name: 1, Svc: svcIPs("10.20.30.2")},
		{Op: "svc", Name: 0, Svc: svcIPs("fc00:30::1")},
		{Op: "del", Name: 1}, {Op: "del", Name: 0},
	}}
	id++
	vsRunHistory(out, id, "corpus-services-sharing-an-address", sharing, r)
	// all BGP peers on one address (different port / VRF): configurations add, change and drop them
	onePeer := func(ps ...vbPeer) *vsCfg { return &vsCfg{Pools: dualPool.Pools, Peers: ps} }
	shared := vsHist{Speakers: []int{0}, SharedAddr: true, Evs: []vsEv{
		{Op: "node", Node: &vsNode{Idx: 0}},
		{Op: "cfg", Cfg: onePeer(vbPeer{Name: 0, Sels: [][][2]int{}}, vbPeer{Name: 1, Sels: [][][2]int{}})},
		{Op: "svc", Name: 0, Svc: svcIPs("10.20.30.1")},
		{Op: "cfg", Cfg: onePeer(vbPeer{Name: 0, Sels: [][][2]int{}}, vbPeer{Name: 1, Sels: [][][2]int{}}, vbPeer{Name: 2, Sels: [][][2]int{}})},
		{Op: "cfg", Cfg: onePeer(vbPeer{Name: 0, Sels: [][][2]int{}, Attr: 1}, vbPeer{Name: 1, Sels: [][][2]int{}}, vbPeer{Name: 2, Sels: [][][2]int{}})},
		{Op: "svc", Name: 0, Svc: nil},
		{Op: "cfg", Cfg: onePeer(vbPeer{Name: 1, Sels: [][][2]int{}})},
	}}
	shared.Evs[5] = vsEv{Op: "del", Name: 0}
	id++
	vsRunHistory(out, id, "corpus-peers-sharing-an-address", shared, r)
	// several layer-2 advertisements of one pool with different node selections and interface lists
	mixed := func(l2 ...vsL2Adv) *vsCfg { return &vsCfg{Pools: []vsPool{{CIDRs: []string{"10.20.30.0/24"}, L2: l2}}} }
	ifsHist := vsHist{Speakers: []int{0}, Evs: []vsEv{
		{Op: "node", Node: &vsNode{Idx: 0}},
		{Op: "cfg", Cfg: mixed(vsL2Adv{Nodes: []int{1, 2}, All: true}, vsL2Adv{Nodes: []int{0}, Ifs: []int{1}})},
		{Op: "svc", Name: 0, Svc: svcIPs("10.20.30.1")},
		{Op: "cfg", Cfg: mixed(vsL2Adv{Nodes: []int{0}, Ifs: []int{0}}, vsL2Adv{Nodes: []int{1}, Ifs: []int{1}}, vsL2Adv{Nodes: []int{0, 2}, Ifs: []int{1, 0}})},
		{Op: "cfg", Cfg: mixed(vsL2Adv{Nodes: []int{0}, Ifs: []int{0}}, vsL2Adv{Nodes: []int{0, 1}, All: true})},
		{Op: "cfg", Cfg: mixed(vsL2Adv{Nodes: []int{2}, All: true}, vsL2Adv{Nodes: []int{0, 1}, Ifs: []int{0}})},
	}}
	id++
	vsRunHistory(out, id, "corpus-advertisements-with-different-selectors", ifsHist, r)
	// a pool first advertised over layer 2 only gets a BGPAdvertisement (and vice versa) while its Services are
	// announced; then a Service loses its endpoints, another is deleted: every protocol must withdraw
	l2only := &vsCfg{Pools: []vsPool{{CIDRs: []string{"10.20.30.0/24", "fc00:30::/64"}, L2: all}}, Peers: []vbPeer{{Name: 0, Sels: [][][2]int{}}}}
	bgponly := &vsCfg{Pools: []vsPool{{CIDRs: []string{"10.20.30.0/24", "fc00:30::/64"}, BGP: bgpAdv}}, Peers: []vbPeer{{Name: 0, Sels: [][][2]int{}}}}
	noEps := &vsSvc{LB: true, IPs: []string{"10.20.30.2"}}
	second := vsHist{Speakers: []int{0}, Evs: []vsEv{
		{Op: "node", Node: &vsNode{Idx: 0}}, {Op: "cfg", Cfg: l2only},
		{Op: "svc", Name: 0, Svc: svcIPs("10.20.30.1")}, {Op: "svc", Name: 1, Svc: svcIPs("10.20.30.2")},
		{Op: "cfg", Cfg: dualPool}, // + BGPAdvertisement
		{Op: "del", Name: 0}, {Op: "svc", Name: 1, Svc: noEps},
		{Op: "cfg", Cfg: bgponly},
		{Op: "svc", Name: 0, Svc: svcIPs("10.20.30.1")}, {Op: "svc", Name: 1, Svc: svcIPs("10.20.30.2")},
		{Op: "cfg", Cfg: dualPool}, // + L2Advertisement
		{Op: "svc", Name: 1, Svc: noEps}, {Op: "del", Name: 0},
	}}
	id++
	vsRunHistory(out, id, "corpus-second-protocol-added", second, r)
	// memberlist disabled: the Node object of the election's winner is deleted; the speaker never hears of it
	ownerGone := vsOwnerFlipHist(1, false)
	ownerGone.Disabled, ownerGone.Speakers = true, nil
	ownerGone.Evs = append(ownerGone.Evs[:4:4], vsEv{Op: "nodedel", Node: &vsNode{Idx: 1}}, vsEv{Op: "resync"}, ownerGone.Evs[3])
	id++
	vsRunHistory(out, id, "corpus-deleted-node", ownerGone, r)
	// a pool is deleted while its Service is announced: refused; the controller clears the address; the requeued
	// configuration must then be accepted without any further configuration event
	poolGone := vsHist{Speakers: []int{0}, Evs: []vsEv{
		{Op: "node", Node: &vsNode{Idx: 0}},
		{Op: "cfg", Cfg: &vsCfg{Pools: []vsPool{{CIDRs: []string{"10.20.30.0/24"}, L2: all, BGP: bgpAdv}, {CIDRs: []string{"10.20.31.0/24"}, L2: all}}, Peers: []vbPeer{{Name: 0, Sels: [][][2]int{}}}}},
		{Op: "svc", Name: 1, Svc: svcIPs("10.20.30.1")}, {Op: "svc", Name: 2, Svc: svcIPs("10.20.31.1")},
		{Op: "cfg", Cfg: &vsCfg{Pools: []vsPool{{CIDRs: []string{"10.20.30.0/24"}, BGP: bgpAdv}}, Peers: []vbPeer{{Name: 0, Sels: [][][2]int{}}, {Name: 1, Sels: [][][2]int{}}}}},
		{Op: "svc", Name: 2, Svc: &vsSvc{LB: true, IPs: []string{}, Eps: eps}},
		{Op: "svc", Name: 1, Svc: svcIPs("10.20.30.1")},
	}}
	id++
	vsRunHistory(out, id, "corpus-pool-deleted-while-announced", poolGone, r)
	// a configuration that orphans an announced address is refused, then the address changes and it is accepted
	refuse := vsHist{Speakers: []int{0}, Evs: []vsEv{
		{Op: "node", Node: &vsNode{Idx: 0}},
		{Op: "cfg", Cfg: &vsCfg{Pools: []vsPool{{CIDRs: []string{"10.20.30.0/24"}, L2: all}}}},
		{Op: "svc", Name: 0, Svc: &vsSvc{LB: true, IPs: []string{"10.20.30.200"}, Eps: eps}},
		{Op: "cfg", Cfg: &vsCfg{Pools: []vsPool{{CIDRs: []string{"10.20.30.0/25"}, L2: all}}}},
		{Op: "svc", Name: 0, Svc: &vsSvc{LB: true, IPs: []string{"10.20.30.1"}, Eps: eps}},
		{Op: "cfg", Cfg: &vsCfg{Pools: []vsPool{{CIDRs: []string{"10.20.30.0/25"}, L2: all}}}},
		{Op: "svc", Name: 0, Svc: &vsSvc{LB: false, IPs: []string{"10.20.30.1"}, Eps: eps}},
	}}
	id++
	vsRunHistory(out, id, "corpus-refused-config", refuse, r)
	for _, p := range vbCorpus("C09") {
		var h vsHist
		if json.Unmarshal(p, &h) == nil && len(h.Evs) > 0 {
			id++
			vsRunHistory(out, id, "corpus", h, r)
		}
	}
	if rp := os.Getenv("VERIF_REPLAY"); rp != "" {
		if b, err := os.ReadFile(rp); err == nil {
			var x struct {
				Replay struct {
					History *vsHist `json:"history"`
				} `json:"replay"`
			}
			if json.Unmarshal(b, &x) == nil && x.Replay.History != nil {
				id++
				vsRunHistory(out, id, "replay", *x.Replay.History, r)
			}
		}
	}
	for i := 0; i < n; i++ {
		id++
		vsRunHistory(out, id, "random", vsGenHist(r), r)
	}
	// election-focused histories: conditions / labels of the OTHER nodes flip
	for _, other := range []int{1, 2} {
		id++
		vsRunHistory(out, id, "corpus-owner-flip", vsOwnerFlipHist(other, false), r)
		id++
		vsRunHistory(out, id, "corpus-labelled-owner-flip", vsOwnerFlipHist(other, true), r)
	}
	for i := 0; i < n/2; i++ {
		id++
		vsRunHistory(out, id, "random-election", vsGenElectHist(r), r)
	}
}
