//go:build verif

package main

// Harness for C04 / C12: drives the real layer2Controller.ShouldAnnounce on
// generated cluster views, for every node of the view, and
//  (a) ships the decision vector to Coq (correspondence with Model/Elect.v),
//  (b) evaluates the properties directly on the implementation (oracle).

import (
	"fmt"
	"math/rand"
	"net"
	"sort"
	"testing"

	"github.com/go-kit/log"
	v1 "k8s.io/api/core/v1"
	discovery "k8s.io/api/discovery/v1"
	metav1 "k8s.io/apimachinery/pkg/apis/meta/v1"

	"go.universe.tf/metallb/internal/config"
	"go.universe.tf/metallb/internal/speakerlist"
)

type vSL struct {
	nodes    map[string]bool
	disabled bool
}

func (s *vSL) UsableSpeakers() speakerlist.SpeakerListInfo {
	if s.disabled {
		return speakerlist.SpeakerListInfo{Nodes: nil, Disabled: true}
	}
	m := map[string]bool{}
	for k, v := range s.nodes {
		m[k] = v
	}
	return speakerlist.SpeakerListInfo{Nodes: m, Disabled: false}
}
func (s *vSL) Rejoin() {}

type vNode struct {
	Known   bool `json:"known"`
	Unavail int  `json:"unavail"` // 0 no condition, 1 True, 2 False
	Excl    bool `json:"excl"`
}
type vEP struct {
	Ready       *bool `json:"ready"`
	Serving     *bool `json:"serving"`
	Terminating *bool `json:"terminating"` // irrelevant to EndpointCanServe
	Node        int   `json:"node"`        // -1 nil
}
type vView struct {
	Names    []string `json:"names"`
	Nodes    []vNode  `json:"nodes"`
	Disabled bool     `json:"disabled"`
	Speakers []int    `json:"speakers"`
	Advs     [][]int  `json:"advs"`      // node indexes with Nodes[n]=true
	AdvFalse [][]int  `json:"adv_false"` // node indexes present with value false
	Eps      [][]vEP  `json:"eps"`
	Local    bool     `json:"local"`
	Ignore   bool     `json:"ignore"`
	IPs      []string `json:"ips"`
}

var vNamePool = []string{"node-a", "node-b", "worker-1", "worker-2", "cp0", "x", "kind-worker3", "n7.example.org"}
var vIPPool4 = []string{"10.20.30.1", "192.168.1.240", "172.16.0.0", "1.2.3.255"}
var vIPPool6 = []string{"fc00:f853:ccd:e799::1", "2001:db8::ff", "fd00::"}

func vBoolPtr(r *rand.Rand) *bool {
	switch r.Intn(3) {
	case 0:
		return nil
	case 1:
		b := true
		return &b
	}
	b := false
	return &b
}

func vGenView(r *rand.Rand) vView {
	n := 2 + r.Intn(4)
	perm := r.Perm(len(vNamePool))
	v := vView{}
	for i := 0; i < n; i++ {
		v.Names = append(v.Names, vNamePool[perm[i]])
		nd := vNode{Known: r.Intn(8) != 0}
		if r.Intn(5) == 0 {
			nd.Unavail = 1 + r.Intn(2)
		}
		nd.Excl = r.Intn(6) == 0
		v.Nodes = append(v.Nodes, nd)
	}
	v.Disabled = r.Intn(4) == 0
	for i := 0; i < n; i++ {
		if r.Intn(5) != 0 {
			v.Speakers = append(v.Speakers, i)
		}
	}
	na := r.Intn(4)
	if r.Intn(3) > 0 && na == 0 {
		na = 1
	}
	for a := 0; a < na; a++ {
		var t, f []int
		for i := 0; i < n; i++ {
			switch r.Intn(6) {
			case 0:
			case 1:
				f = append(f, i)
			default:
				t = append(t, i)
			}
		}
		v.Advs = append(v.Advs, t)
		v.AdvFalse = append(v.AdvFalse, f)
	}
	ns := r.Intn(4)
	for s := 0; s < ns; s++ {
		var sl []vEP
		ne := r.Intn(4)
		for e := 0; e < ne; e++ {
			ep := vEP{Ready: vBoolPtr(r), Serving: vBoolPtr(r), Terminating: vBoolPtr(r), Node: r.Intn(n+1) - 1}
			switch r.Intn(4) {
			case 0, 1: // bias towards ready endpoints
				b := true
				ep.Ready = &b
			case 2: // a replica being replaced: not ready, still serving, terminating
				f, tr, tr2 := false, true, true
				ep.Ready, ep.Serving, ep.Terminating = &f, &tr, &tr2
			}
			sl = append(sl, ep)
		}
		v.Eps = append(v.Eps, sl)
	}
	v.Local = r.Intn(2) == 0
	v.Ignore = r.Intn(4) == 0
	switch r.Intn(4) {
	case 0:
		v.IPs = []string{vIPPool4[r.Intn(len(vIPPool4))]}
	case 1:
		v.IPs = []string{vIPPool6[r.Intn(len(vIPPool6))]}
	case 2:
		v.IPs = []string{vIPPool4[r.Intn(len(vIPPool4))], vIPPool6[r.Intn(len(vIPPool6))]}
	default:
		v.IPs = []string{vIPPool6[r.Intn(len(vIPPool6))], vIPPool4[r.Intn(len(vIPPool4))]}
	}
	return v
}

// vBuild turns a view into the arguments of ShouldAnnounce. `order` permutes
// the insertion order of every map (Go randomises iteration anyway).
func vBuild(v vView, r *rand.Rand) (*config.Pool, *v1.Service, []discovery.EndpointSlice, map[string]*v1.Node, *vSL, []net.IP) {
	n := len(v.Names)
	nodes := map[string]*v1.Node{}
	for _, i := range r.Perm(n) {
		nd := v.Nodes[i]
		if !nd.Known {
			continue
		}
		o := &v1.Node{ObjectMeta: metav1.ObjectMeta{Name: v.Names[i], Labels: map[string]string{"a": "b"}}}
		if nd.Excl {
			// the label excludes the node whatever its value is
			o.Labels[v1.LabelNodeExcludeBalancers] = []string{"", "true", "false", "0"}[r.Intn(4)]
		}
		switch nd.Unavail {
		case 1:
			o.Status.Conditions = append(o.Status.Conditions, v1.NodeCondition{Type: v1.NodeReady, Status: v1.ConditionTrue},
				v1.NodeCondition{Type: v1.NodeNetworkUnavailable, Status: v1.ConditionTrue})
		case 2:
			o.Status.Conditions = append(o.Status.Conditions, v1.NodeCondition{Type: v1.NodeNetworkUnavailable, Status: v1.ConditionFalse})
		}
		nodes[v.Names[i]] = o
	}
	sl := &vSL{disabled: v.Disabled, nodes: map[string]bool{}}
	for _, i := range v.Speakers {
		sl.nodes[v.Names[i]] = true
	}
	pool := &config.Pool{Name: "p"}
	for a := range v.Advs {
		adv := &config.L2Advertisement{Nodes: map[string]bool{}, AllInterfaces: true}
		for _, i := range v.Advs[a] {
			adv.Nodes[v.Names[i]] = true
		}
		for _, i := range v.AdvFalse[a] {
			adv.Nodes[v.Names[i]] = false
		}
		pool.L2Advertisements = append(pool.L2Advertisements, adv)
	}
	var eps []discovery.EndpointSlice
	for _, s := range v.Eps {
		var sl discovery.EndpointSlice
		for k, e := range s {
			ep := discovery.Endpoint{Addresses: []string{fmt.Sprintf("2.3.4.%d", k)}}
			ep.Conditions.Ready = e.Ready
			ep.Conditions.Serving = e.Serving
			ep.Conditions.Terminating = e.Terminating
			if e.Node >= 0 {
				nm := v.Names[e.Node]
				ep.NodeName = &nm
			}
			sl.Endpoints = append(sl.Endpoints, ep)
		}
		eps = append(eps, sl)
	}
	svc := &v1.Service{Spec: v1.ServiceSpec{Type: "LoadBalancer", ExternalTrafficPolicy: v1.ServiceExternalTrafficPolicyTypeCluster}}
	if v.Local {
		svc.Spec.ExternalTrafficPolicy = v1.ServiceExternalTrafficPolicyTypeLocal
	}
	// Service fields the election must not read ("identical for every Service
	// using that address"): varied freely, the model does not see them
	switch r.Intn(3) {
	case 1:
		p := v1.ServiceInternalTrafficPolicyLocal
		svc.Spec.InternalTrafficPolicy = &p
	case 2:
		p := v1.ServiceInternalTrafficPolicyCluster
		svc.Spec.InternalTrafficPolicy = &p
	}
	if r.Intn(2) == 0 {
		svc.Spec.PublishNotReadyAddresses = true
	}
	if r.Intn(2) == 0 {
		svc.Spec.SessionAffinity = v1.ServiceAffinityClientIP
	}
	if r.Intn(2) == 0 {
		svc.Spec.Selector = map[string]string{"app": fmt.Sprintf("a%d", r.Intn(3))}
		svc.Labels = map[string]string{"tier": fmt.Sprintf("t%d", r.Intn(3))}
	}
	if r.Intn(2) == 0 {
		svc.Spec.HealthCheckNodePort = int32(30000 + r.Intn(100))
		svc.Spec.Ports = []v1.ServicePort{{Port: int32(80 + r.Intn(3)), Protocol: v1.ProtocolTCP}}
	}
	var ips []net.IP
	for _, s := range v.IPs {
		ips = append(ips, net.ParseIP(s))
	}
	return pool, svc, eps, nodes, sl, ips
}

// vDecide runs the real ShouldAnnounce as node `me`.
func vDecide(v vView, me int, r *rand.Rand) bool {
	pool, svc, eps, nodes, sl, ips := vBuild(v, r)
	c := &layer2Controller{myNode: v.Names[me], ignoreExcludeLB: v.Ignore, sList: sl}
	return c.ShouldAnnounce(log.NewNopLogger(), "ns/svc", ips, pool, svc, eps, nodes) == ""
}

func vDecideAll(v vView, r *rand.Rand) []bool {
	out := make([]bool, len(v.Names))
	for i := range v.Names {
		out[i] = vDecide(v, i, r)
	}
	return out
}

func vCanServe(e vEP) bool {
	if e.Ready == nil || *e.Ready {
		return true
	}
	return e.Serving != nil && *e.Serving
}

// vEligible is the property's eligibility list, written from the statement.
func vEligible(v vView, i int) bool {
	if v.Disabled {
		if !v.Nodes[i].Known {
			return false
		}
	} else {
		live := false
		for _, s := range v.Speakers {
			if s == i {
				live = true
			}
		}
		if !live {
			return false
		}
	}
	if v.Nodes[i].Known {
		if v.Nodes[i].Unavail == 1 {
			return false
		}
		if v.Nodes[i].Excl && !v.Ignore {
			return false
		}
	}
	sel := false
	for _, a := range v.Advs {
		for _, x := range a {
			if x == i {
				sel = true
			}
		}
	}
	if !sel {
		return false
	}
	any, here := false, false
	for _, s := range v.Eps {
		for _, e := range s {
			if vCanServe(e) {
				any = true
				if e.Node == i {
					here = true
				}
			}
		}
	}
	if !any {
		return false
	}
	if v.Local && !here {
		return false
	}
	return true
}

func vViewCoq(v vView) string {
	var nodes []string
	for i, nd := range v.Nodes {
		if nd.Known {
			nodes = append(nodes, cCtor("Build_ninfo", cNi(i), cBool(nd.Unavail == 1), cBool(nd.Excl)))
		}
	}
	spk := cNone
	if !v.Disabled {
		spk = cSome(cListN(v.Speakers))
	}
	var advs []string
	for _, a := range v.Advs {
		advs = append(advs, cListN(a))
	}
	var eps []string
	for _, s := range v.Eps {
		var l []string
		for _, e := range s {
			nd := cNone
			if e.Node >= 0 {
				nd = cSome(cNi(e.Node))
			}
			l = append(l, cCtor("Build_endpoint", cOptBool(e.Ready), cOptBool(e.Serving), nd))
		}
		eps = append(eps, cList(l))
	}
	return cCtor("Build_view", cList(nodes), spk, cList(advs), cList(eps), cBool(v.Local), cBool(v.Ignore))
}

func vCaseCoq(id int, v vView, obs []bool) string {
	var names, o []string
	for i, nm := range v.Names {
		names = append(names, cPair(cNi(i), cBytes63([]byte(nm))))
		o = append(o, cPair(cNi(i), cBool(obs[i])))
	}
	ipstr := net.ParseIP(v.IPs[0]).String()
	return cCtor("mk_ecase", cNi(id), cList(names), cBytes63([]byte(ipstr)), vViewCoq(v), cList(o))
}

func vWinners(d []bool) []int {
	var w []int
	for i, b := range d {
		if b {
			w = append(w, i)
		}
	}
	return w
}

func vCopyView(v vView) vView {
	c := v
	c.Nodes = append([]vNode(nil), v.Nodes...)
	c.Speakers = append([]int(nil), v.Speakers...)
	c.Names = append([]string(nil), v.Names...)
	c.IPs = append([]string(nil), v.IPs...)
	return c
}

func TestVerifL2(t *testing.T) {
	out := vOpen()
	defer out.Close()
	r := vRand()
	n := vN(400)
	id := 0
	emit := func(kind string, v vView, d []bool) {
		id++
		out.Case(id, kind, vCaseCoq(id, v, d), v)
	}
	for k := 0; k < n; k++ {
		v := vGenView(r)
		d := vDecideAll(v, r)
		emit("view", v, d)
		w := vWinners(d)
		var elig []int
		for i := range v.Names {
			if vEligible(v, i) {
				elig = append(elig, i)
			}
		}
		out.Stat("views", 1)
		if len(elig) == 0 {
			out.Stat("no_eligible", 1)
		}
		if len(elig) >= 2 {
			out.Stat("contested(>=2 eligible)", 1)
		}
		if v.Local {
			out.Stat("local_policy", 1)
		}
		if v.Disabled {
			out.Stat("memberlist_disabled", 1)
		}
		// ---- C04 oracle: exactly one / none, winner eligible
		if len(elig) > 0 && len(w) != 1 {
			out.Fail("l2-not-exactly-one", fmt.Sprintf("eligible nodes %v but announcers %v", elig, w), v)
		}
		if len(elig) == 0 && len(w) != 0 {
			out.Fail("l2-announcer-without-eligible", fmt.Sprintf("no eligible node but announcers %v", w), v)
		}
		for _, x := range w {
			if !vEligible(v, x) {
				out.Fail("l2-winner-not-eligible", fmt.Sprintf("node %d announces but is not eligible", x), v)
			}
		}
		// determinism across map orders (each vDecide rebuilt every map in a fresh order)
		d2 := vDecideAll(v, r)
		if fmt.Sprint(d) != fmt.Sprint(d2) {
			out.Fail("l2-depends-on-map-order", fmt.Sprintf("decisions %v then %v on the same view", d, d2), v)
		}
		if len(w) != 1 {
			continue
		}
		win := w[0]
		// ---- C04: another service with the same first address and same
		// endpoints/policy elects the same node (it is the same computation with
		// another name; checked through a second address list with equal head)
		if len(v.IPs) == 2 {
			v2 := vCopyView(v)
			v2.IPs = v.IPs[:1]
			dd := vDecideAll(v2, r)
			if fmt.Sprint(dd) != fmt.Sprint(d) {
				out.Fail("l2-shared-same-first-differs", fmt.Sprintf("services [a,b] and [a] elect %v and %v", w, vWinners(dd)), v)
			}
			// F8: a service holding only the second address shares it with this one
			v3 := vCopyView(v)
			v3.IPs = v.IPs[1:]
			d3 := vDecideAll(v3, r)
			emit("shared-second", v3, d3)
			out.Stat("shared_second_address_pairs", 1)
			if fmt.Sprint(d3) != fmt.Sprint(d) {
				out.Stat("shared_second_address_disagree", 1)
				out.Fail("l2-elect-shared-nonfirst-address",
					fmt.Sprintf("services with addresses %v and %v share %s but elect nodes %v and %v", v.IPs, v3.IPs, v.IPs[1], w, vWinners(d3)), v)
			}
		}
		// ---- C12 oracle: perturb the eligible set
		// (1) remove a set of nodes not containing the winner
		vr := vCopyView(v)
		var removed []int
		for _, i := range elig {
			if i != win && r.Intn(2) == 0 {
				removed = append(removed, i)
				switch r.Intn(3) {
				case 0: // speaker dies / node forgotten
					if v.Disabled {
						vr.Nodes[i].Known = false
					} else {
						var s []int
						for _, x := range vr.Speakers {
							if x != i {
								s = append(s, x)
							}
						}
						vr.Speakers = s
					}
				case 1:
					if vr.Nodes[i].Known {
						vr.Nodes[i].Unavail = 1
					} else {
						vr.Nodes[i] = vNode{Known: true, Unavail: 1}
					}
				default:
					if vr.Nodes[i].Known && !v.Ignore {
						vr.Nodes[i].Excl = true
					} else {
						vr.Nodes[i] = vNode{Known: true, Unavail: 1}
					}
				}
			}
		}
		if len(removed) > 0 {
			dr := vDecideAll(vr, r)
			emit("removed", vr, dr)
			out.Stat("perturb_remove", 1)
			wr := vWinners(dr)
			if len(wr) != 1 || wr[0] != win {
				out.Fail("l2-moved-on-nonowner-loss", fmt.Sprintf("winner %d, removed %v, new announcers %v", win, removed, wr), map[string]any{"before": v, "after": vr})
			}
		}
		// (2) add nodes: every non-eligible node that can be made eligible
		va := vCopyView(v)
		var added []int
		for i := range v.Names {
			if vEligible(v, i) || r.Intn(2) == 0 {
				continue
			}
			va.Nodes[i] = vNode{Known: true}
			if !v.Disabled {
				has := false
				for _, x := range va.Speakers {
					if x == i {
						has = true
					}
				}
				if !has {
					va.Speakers = append(va.Speakers, i)
				}
			}
			if vEligible(va, i) {
				added = append(added, i)
			}
		}
		if len(added) > 0 {
			// other nodes must not have changed eligibility
			same := true
			for i := range v.Names {
				isAdded := false
				for _, a := range added {
					if a == i {
						isAdded = true
					}
				}
				if !isAdded && vEligible(v, i) != vEligible(va, i) {
					same = false
				}
			}
			if same {
				da := vDecideAll(va, r)
				emit("added", va, da)
				out.Stat("perturb_add", 1)
				wa := vWinners(da)
				ok := len(wa) == 1 && wa[0] == win
				if len(wa) == 1 {
					for _, a := range added {
						if wa[0] == a {
							ok = true
						}
					}
				}
				if !ok {
					out.Fail("l2-moved-between-survivors", fmt.Sprintf("winner %d, added %v, new announcers %v", win, added, wa), map[string]any{"before": v, "after": va})
				}
			}
		}
		// (3) the choice depends only on eligible names and the address: an
		// unrelated view with the same eligible name set and address
		vo := vCopyView(v)
		vo.Local = false
		vo.Eps = [][]vEP{{{Node: -1}}}
		vo.Advs = [][]int{elig}
		vo.AdvFalse = [][]int{nil}
		vo.Ignore = true
		for i := range vo.Nodes {
			vo.Nodes[i] = vNode{Known: true}
		}
		vo.Disabled = false
		vo.Speakers = append([]int(nil), elig...)
		sort.Sort(sort.Reverse(sort.IntSlice(vo.Speakers)))
		do := vDecideAll(vo, r)
		emit("names-only", vo, do)
		if fmt.Sprint(vWinners(do)) != fmt.Sprint(w) {
			out.Fail("l2-choice-not-function-of-names-and-address", fmt.Sprintf("same eligible names %v and address, winners %v vs %v", elig, w, vWinners(do)), map[string]any{"a": v, "b": vo})
		}
	}
}
