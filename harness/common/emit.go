//go:build verif

package PKG

// Common emitter for the /verif harnesses: JSON-lines records on $VERIF_OUT and
// builders for Coq terms (cases are shipped to Coq as terms of the model's types).

import (
	"encoding/json"
	"fmt"
	"math/big"
	"math/rand"
	"os"
	"strconv"
	"strings"
	"sync"
)

type vOut struct {
	mu    sync.Mutex
	f     *os.File
	stats map[string]int
}

func vOpen() *vOut {
	o := &vOut{stats: map[string]int{}}
	p := os.Getenv("VERIF_OUT")
	if p == "" {
		p = os.DevNull
	}
	f, err := os.OpenFile(p, os.O_CREATE|os.O_WRONLY|os.O_APPEND, 0o644)
	if err != nil {
		panic(err)
	}
	o.f = f
	return o
}

func (o *vOut) rec(m map[string]any) {
	b, err := json.Marshal(m)
	if err != nil {
		panic(err)
	}
	o.mu.Lock()
	defer o.mu.Unlock()
	o.f.Write(append(b, '\n'))
}

// Case ships one correspondence case: the Coq term and a readable form.
func (o *vOut) Case(id int, kind string, coq string, human any) {
	o.rec(map[string]any{"t": "case", "id": id, "kind": kind, "coq": coq, "in": human})
}

// Fail reports a concrete input on which the implementation violates the property.
func (o *vOut) Fail(sig, what string, replay any) {
	o.rec(map[string]any{"t": "fail", "sig": sig, "what": what, "replay": replay})
}

func (o *vOut) Stat(k string, d int) {
	o.mu.Lock()
	o.stats[k] += d
	o.mu.Unlock()
}

func (o *vOut) Close() {
	for k, v := range o.stats {
		o.rec(map[string]any{"t": "stat", "k": k, "v": v})
	}
	o.f.Close()
}

func vSeed() int64 {
	s, _ := strconv.ParseInt(os.Getenv("VERIF_SEED"), 10, 64)
	if s == 0 {
		s = 1
	}
	return s
}

func vRand() *rand.Rand { return rand.New(rand.NewSource(vSeed())) }

func vN(def int) int {
	if n, err := strconv.Atoi(os.Getenv("VERIF_N")); err == nil && n > 0 {
		return n
	}
	return def
}

func vThorough() bool { return os.Getenv("VERIF_TIER") == "thorough" }

func vEnvInt(k string, def int) int {
	if n, err := strconv.Atoi(os.Getenv(k)); err == nil {
		return n
	}
	return def
}

// ---- Coq term builders ----

func cN(n uint64) string     { return strconv.FormatUint(n, 10) + "%N" }
func cNi(n int) string       { return strconv.Itoa(n) + "%N" }
func cBigN(n *big.Int) string { return n.String() + "%N" }
func cZ(n int64) string {
	return "(" + strconv.FormatInt(n, 10) + ")%Z"
}
func cBigZ(n *big.Int) string { return "(" + n.String() + ")%Z" }
func cNat(n int) string       { return strconv.Itoa(n) + "%nat" }
func cBool(b bool) string {
	if b {
		return "true"
	}
	return "false"
}
func cList(items []string) string { return "[" + strings.Join(items, "; ") + "]" }
func cSome(x string) string       { return "(Some " + x + ")" }

const cNone = "None"

func cPair(a, b string) string { return "(" + a + ", " + b + ")" }
func cCtor(name string, args ...string) string {
	if len(args) == 0 {
		return name
	}
	return "(" + name + " " + strings.Join(args, " ") + ")"
}
func cOptBool(b *bool) string {
	if b == nil {
		return cNone
	}
	return cSome(cBool(*b))
}

// bytes as a list of primitive 63-bit integers (for the in-Coq SHA-256)
func cBytes63(b []byte) string {
	it := make([]string, len(b))
	for i, x := range b {
		it[i] = fmt.Sprintf("%d%%uint63", x)
	}
	return cList(it)
}

// bytes as a list of N
func cBytesN(b []byte) string {
	it := make([]string, len(b))
	for i, x := range b {
		it[i] = strconv.Itoa(int(x)) + "%N"
	}
	return cList(it)
}

func cListN(xs []int) string {
	it := make([]string, len(xs))
	for i, x := range xs {
		it[i] = cNi(x)
	}
	return cList(it)
}
