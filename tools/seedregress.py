#!/usr/bin/env python3
"""Re-run the checks against every kept seeded change on the current /repo HEAD (regression of the
machinery): tools/seedregress.py [workers]  -> seeded/REGRESSION.md"""
import glob, json, os, shutil, subprocess, sys, concurrent.futures as cf
V = os.path.dirname(os.path.dirname(os.path.abspath(__file__)))
def one(d):
    name = os.path.basename(d)
    m = json.load(open(os.path.join(d, "meta.json")))
    prev = m.get("coordinator_confirmation", {})
    checks = [c for c in prev.get("detected_by", []) if c != m.get("breaks_property")]
    tmp = "/tmp/sr/%s" % name
    shutil.rmtree(tmp, ignore_errors=True); shutil.copytree(d, tmp)
    cmd = ["python3", os.path.join(V, "tools/seedcheck.py"), tmp, name, "--fast"] + (["--checks", ",".join(checks)] if checks else [])
    p = subprocess.run(cmd, stdout=subprocess.PIPE, stderr=subprocess.STDOUT, text=True)
    m2 = json.load(open(os.path.join(d, "meta.json")))["coordinator_confirmation"]
    return name, m2.get("patch_applies"), m2.get("builds"), m2.get("detected_by")
def main():
    workers = int(sys.argv[1]) if len(sys.argv) > 1 else 3
    dirs = sorted(glob.glob(os.path.join(V, "seeded", "C*-*")))
    os.makedirs("/tmp/sr", exist_ok=True)
    rows = []
    with cf.ThreadPoolExecutor(workers) as ex:
        for r in ex.map(one, dirs):
            rows.append(r); print(r, flush=True)
    with open(os.path.join(V, "seeded", "REGRESSION.md"), "w") as f:
        f.write("# Regression of the checks on every kept seeded change (current /repo HEAD)\n\n| change | patch applies | builds | detected by |\n|---|---|---|---|\n")
        for r in rows:
            f.write("| %s | %s | %s | %s |\n" % (r[0], r[1], r[2], ", ".join(r[3] or []) or ("-" if r[1] else "n/a (patch no longer applies)")))
    bad = [r for r in rows if r[1] and not r[3]]
    print("undetected:", bad)
if __name__ == "__main__":
    main()
