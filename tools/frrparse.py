"""frrparse — line parser for the FRR configuration text that metallb's templates
(internal/bgp/frr/templates/*.tmpl) can emit, into the AST of coq/Model/FrrAst.v;
printer of that AST as a Coq term; Python port of coq/Model/FrrSem.v (sem_out,
sem_in, intended) used as the C14 oracle and cross-checked against Coq's on every
case.  An unknown line raises ParseError (=> broken check, never silently skipped).
"""
import ipaddress
import re


class ParseError(Exception):
    pass


HEADER = [re.compile(p) for p in (
    r'^log file \S+( \S*)?$', r'^log timestamp precision \d+$', r'^debug \S+( \S+)*$', r'^hostname \S+$',
    r'^ip nht resolve-via-default$', r'^ipv6 nht resolve-via-default$')]
ROUTER_OPTS = ["no bgp ebgp-requires-policy", "no bgp network import-check",
               "no bgp default ipv4-unicast", "bgp graceful-restart preserve-fw-state"]


def parse(text):
    """-> {"items": [...], "routers": [...], "bfd": [raw lines]}"""
    items, routers, bfd = [], [], []
    cur_rm = None      # current route-map entry (dict)
    cur_rtr = None
    cur_nbr = None
    cur_af = None
    in_bfd = False
    lines = text.split("\n")
    for lineno, raw in enumerate(lines, 1):
        line = raw.rstrip()
        if line.strip() == "":
            continue
        indented = raw[0] in " \t"
        s = line.strip()

        def bad(why="unknown line"):
            raise ParseError("line %d: %s: %r" % (lineno, why, raw))

        if not indented:
            cur_rm = None
            cur_nbr = None
            cur_af = None
            if in_bfd:
                in_bfd = False
            if cur_rtr is not None and not s.startswith("router bgp"):
                cur_rtr = None
            m = re.match(r'^route-map (\S+) (permit|deny) (\d+)$', s)
            if m:
                cur_rm = {"t": "rm", "name": m.group(1), "seq": int(m.group(3)), "permit": m.group(2) == "permit",
                          "match": [], "sets": [], "next": False}
                items.append(cur_rm)
                continue
            m = re.match(r'^(ip|ipv6) prefix-list (\S+) seq (\d+) (permit|deny) (\S+)$', s)
            if m:
                afi = "A4" if m.group(1) == "ip" else "A6"
                p = None if m.group(5) == "any" else m.group(5)
                if p is not None:
                    check_prefix(p, bad)
                items.append({"t": "pl", "afi": afi, "name": m.group(2), "seq": int(m.group(3)),
                              "permit": m.group(4) == "permit", "pfx": p})
                continue
            m = re.match(r'^router bgp (\d+)( vrf (\S+))?$', s)
            if m:
                cur_rtr = {"asn": int(m.group(1)), "vrf": m.group(3) or "", "opts": [], "id": None, "nbrs": [],
                           "net4": [], "net6": []}
                routers.append(cur_rtr)
                continue
            if s == "bfd":
                in_bfd = True
                continue
            if any(h.match(s) for h in HEADER):
                continue
            bad()
        # ---- indented lines ----
        if in_bfd:
            bfd.append(s)
            continue
        if cur_rm is not None:
            m = re.match(r'^match (ip|ipv6) address prefix-list (\S+)$', s)
            if m:
                cur_rm["match"].append(("A4" if m.group(1) == "ip" else "A6", m.group(2)))
                continue
            m = re.match(r'^set local-preference (\d+)$', s)
            if m:
                cur_rm["sets"].append(("lp", int(m.group(1))))
                continue
            m = re.match(r'^set community (\d+:\d+) additive$', s)
            if m:
                cur_rm["sets"].append(("comm", m.group(1)))
                continue
            m = re.match(r'^set large-community (\d+:\d+:\d+) additive$', s)
            if m:
                cur_rm["sets"].append(("lcomm", m.group(1)))
                continue
            if s == "on-match next":
                if cur_rm["next"]:
                    bad("duplicate on-match")
                cur_rm["next"] = True
                continue
            bad("unknown route-map clause")
        if cur_rtr is None:
            bad("indented line outside a block")
        if cur_af is not None:
            if s == "exit-address-family":
                cur_af = None
                continue
            m = re.match(r'^neighbor (\S+) activate$', s)
            if m:
                act(cur_rtr, m.group(1), cur_af, bad)["activate"] = True
                continue
            m = re.match(r'^neighbor (\S+) route-map (\S+) (in|out)$', s)
            if m:
                a = act(cur_rtr, m.group(1), cur_af, bad)
                if m.group(3) in a:
                    bad("duplicate route-map direction")
                a[m.group(3)] = m.group(2)
                continue
            m = re.match(r'^network (\S+)$', s)
            if m:
                check_prefix(m.group(1), bad)
                fam = ipaddress.ip_network(m.group(1), strict=False).version
                if (fam == 4) != (cur_af == "A4"):
                    bad("network of the other family")
                cur_rtr["net4" if cur_af == "A4" else "net6"].append(m.group(1))
                continue
            bad("unknown address-family line")
        m = re.match(r'^address-family (ipv4|ipv6) unicast$', s)
        if m:
            cur_af = "A4" if m.group(1) == "ipv4" else "A6"
            cur_nbr = None
            continue
        if s in ROUTER_OPTS:
            cur_rtr["opts"].append(s)
            continue
        m = re.match(r'^bgp router-id (\S+)$', s)
        if m:
            if cur_rtr["id"] is not None:
                bad("duplicate router-id")
            cur_rtr["id"] = m.group(1)
            continue
        m = re.match(r'^neighbor (\S+) (interface )?remote-as (\S+)$', s)
        if m:
            cur_nbr = {"peer": m.group(1), "iface": bool(m.group(2)), "asn": m.group(3), "multihop": False, "port": None,
                       "timers": None, "connect": None, "password": None, "src": None, "gr": False, "bfd": None,
                       "bfd_flag": False, "dcc": None, "act": {}}
            cur_rtr["nbrs"].append(cur_nbr)
            continue
        m = re.match(r'^neighbor (\S*) disable-connected-check$', s) or re.match(r'^neighbor  disable-connected-check$', s)
        if m:
            if cur_nbr is None or cur_nbr["dcc"] is not None:
                bad("disable-connected-check without neighbor")
            cur_nbr["dcc"] = m.group(1) if m.groups() else ""
            continue
        m = re.match(r'^neighbor (\S+) (.*)$', s)
        if m and cur_nbr is not None and m.group(1) == cur_nbr["peer"]:
            rest = m.group(2)
            n = cur_nbr

            def once(k, v):
                if n[k] not in (None, False):
                    bad("duplicate neighbor attribute")
                n[k] = v
            mm = re.match(r'^port (\d+)$', rest)
            if rest == "ebgp-multihop":
                once("multihop", True)
            elif mm:
                once("port", int(mm.group(1)))
            elif re.match(r'^timers connect (\d+)$', rest):
                once("connect", int(rest.split()[2]))
            elif re.match(r'^timers (\d+) (\d+)$', rest):
                once("timers", (int(rest.split()[1]), int(rest.split()[2])))
            elif re.match(r'^password (\S+)$', rest):
                once("password", rest.split()[1])
            elif re.match(r'^update-source (\S+)$', rest):
                once("src", rest.split()[1])
            elif rest == "graceful-restart":
                once("gr", True)
            elif rest == "bfd":
                once("bfd_flag", True)
            elif re.match(r'^bfd profile (\S+)$', rest):
                if not n["bfd_flag"]:
                    bad("bfd profile without bfd")
                once("bfd", rest.split()[2])
            else:
                bad("unknown neighbor attribute")
            continue
        bad()
    # post-process
    for r in routers:
        for n in r["nbrs"]:
            if n["bfd_flag"] and n["bfd"] is None:
                raise ParseError("neighbor %s: bfd without profile" % n["peer"])
            for af in ("A4", "A6"):
                a = n["act"].get(af)
                if a is None:
                    n["act" + af] = None
                else:
                    if not (a.get("activate") and "in" in a and "out" in a):
                        raise ParseError("neighbor %s: incomplete activation %r" % (n["peer"], a))
                    n["act" + af] = (a["in"], a["out"])
        seen = r.pop("_acts", {})
        for peer in seen:
            if not any(n["peer"] == peer for n in r["nbrs"]):
                raise ParseError("activation of unknown neighbor %s" % peer)
    return {"items": items, "routers": routers, "bfd": bfd}


def act(rtr, peer, af, bad):
    rtr.setdefault("_acts", {})[peer] = True
    ns = [n for n in rtr["nbrs"] if n["peer"] == peer]
    if len(ns) != 1:
        bad("activation of unknown or ambiguous neighbor")
    return ns[0]["act"].setdefault(af, {})


def check_prefix(p, bad):
    try:
        ipaddress.ip_network(p, strict=False)
    except ValueError:
        bad("bad prefix")


# ---------------------------------------------------------------- Coq printer
def cstr(s):
    return '"' + s.replace('"', '""') + '"'


def cpfx(p):
    net = ipaddress.ip_network(p, strict=False)
    base = int(ipaddress.ip_interface(p).ip)   # the address as written
    return '(mk_pfx %s {| pfam := %s; pbase := %d%%N; plen := %d%%N |})' % (
        cstr(p), "F4" if net.version == 4 else "F6", base, net.prefixlen)


def copt(x, f):
    return "None" if x is None else "(Some %s)" % f(x)


def cbool(b):
    return "true" if b else "false"


def cN(n):
    return "%d%%N" % n


def clist(xs):
    return "[" + "; ".join(xs) + "]"


def cset(s):
    k, v = s
    return {"lp": lambda: "(SetLP %s)" % cN(v), "comm": lambda: "(SetComm %s)" % cstr(v),
            "lcomm": lambda: "(SetLComm %s)" % cstr(v)}[k]()


def citem(it):
    if it["t"] == "rm":
        return "(IRm %s %s %s %s %s %s)" % (cstr(it["name"]), cN(it["seq"]), cbool(it["permit"]),
                                            clist(["(%s, %s)" % (a, cstr(n)) for a, n in it["match"]]),
                                            clist([cset(s) for s in it["sets"]]), cbool(it["next"]))
    return "(IPl %s %s %s %s %s)" % (it["afi"], cstr(it["name"]), cN(it["seq"]), cbool(it["permit"]), copt(it["pfx"], cpfx))


def cnbr(n):
    pair = lambda p: "(%s, %s)" % (cstr(p[0]), cstr(p[1]))
    return "(mk_nbr %s %s %s %s %s %s %s %s %s %s %s %s %s %s)" % (
        cstr(n["peer"]), cbool(n["iface"]), cstr(n["asn"]), cbool(n["multihop"]), copt(n["port"], cN),
        copt(n["timers"], lambda t: "(%s, %s)" % (cN(t[0]), cN(t[1]))), copt(n["connect"], cN),
        copt(n["password"], cstr), copt(n["src"], cstr), cbool(n["gr"]), copt(n["bfd"], cstr), copt(n["dcc"], cstr),
        copt(n["actA4"], pair), copt(n["actA6"], pair))


def crtr(r):
    return "(mk_rtr %s %s %s %s %s %s %s)" % (cN(r["asn"]), cstr(r["vrf"]), clist([cstr(o) for o in r["opts"]]),
                                              copt(r["id"], cstr), clist([cnbr(n) for n in r["nbrs"]]),
                                              clist([cpfx(p) for p in r["net4"]]), clist([cpfx(p) for p in r["net6"]]))


def cfrr(ast):
    return "(mk_frr %s %s)" % (clist([citem(i) for i in ast["items"]]), clist([crtr(r) for r in ast["routers"]]))


# ---------------------------------------------------------------- semantics (port of FrrSem.v)
def pfx_afi(p):
    return "A4" if ipaddress.ip_network(p, strict=False).version == 4 else "A6"


def pl_lines(ast, afi, name):
    return [(i["permit"], i["pfx"]) for i in ast["items"] if i["t"] == "pl" and i["afi"] == afi and i["name"] == name]


def match_ok(ast, um, route, m):
    afi, name = m
    if afi != pfx_afi(route):
        return False
    ls = pl_lines(ast, afi, name)
    if not ls:
        return um
    for permit, p in ls:
        if p is None or p == route:
            return permit
    return False


def eval_rm(ast, ft, um, name, route):
    acc = {"lp": None, "comm": [], "lcomm": []}
    fell = False
    for e in [i for i in ast["items"] if i["t"] == "rm" and i["name"] == name]:
        if all(match_ok(ast, um, route, m) for m in e["match"]):
            if not e["permit"]:
                return None
            for k, v in e["sets"]:
                if k == "lp":
                    acc["lp"] = v
                elif v not in acc[k]:
                    acc[k].append(v)
            if e["next"]:
                fell = True
                continue
            return acc
    return acc if (fell and ft) else None


def find_nbr(ast, vrf, peer):
    for r in ast["routers"]:
        if r["vrf"] == vrf:
            for n in r["nbrs"]:
                if n["peer"] == peer:
                    return r, n
            return None
    return None


def sem_out(ast, ft, um, vrf, peer, route):
    x = find_nbr(ast, vrf, peer)
    if x is None:
        return None
    a = x[1]["act" + pfx_afi(route)]
    if a is None:
        return None
    return eval_rm(ast, ft, um, a[1], route)


def sem_in(ast, ft, um, vrf, peer, route):
    x = find_nbr(ast, vrf, peer)
    if x is None:
        return False
    a = x[1]["act" + pfx_afi(route)]
    if a is None:
        return False
    return eval_rm(ast, ft, um, a[0], route) is not None


def sem_networks(ast, vrf, afi):
    for r in ast["routers"]:
        if r["vrf"] == vrf:
            return r["net4" if afi == "A4" else "net6"]
    return []


# ---- what the session set intends (from the property statement) ----
def peer_tok(s):
    return s["iface"] if s["iface"] else s["addr"]


def own_afi(s):
    if s["iface"]:
        return "A6"
    return "A4" if ipaddress.ip_address(s["addr"]).version == 4 else "A6"


def act_intended(s, afi):
    return (not s["disable_mp"]) or own_afi(s) == afi


def intended(s, route):
    if not act_intended(s, pfx_afi(route)):
        return None
    advs = [a for a in s["advs"] if a["prefix"] == route]
    if not advs:
        return None
    comm, lcomm = [], []
    for a in advs:
        for c in a["comms"]:
            if c.startswith("large:"):
                if c[6:] not in lcomm:
                    lcomm.append(c[6:])
            elif c not in comm:
                comm.append(c)
    return {"lp": advs[0]["lp"] or None, "comm": comm, "lcomm": lcomm}


def attrs_equiv(a, b):
    if a is None or b is None:
        return a is None and b is None
    return a["lp"] == b["lp"] and set(a["comm"]) == set(b["comm"]) and set(a["lcomm"]) == set(b["lcomm"])


def cattrs(a):
    if a is None:
        return "None"
    return "(Some (mk_attrs %s %s %s))" % (copt(a["lp"], cN), clist([cstr(c) for c in a["comm"]]),
                                           clist([cstr(c) for c in a["lcomm"]]))


if __name__ == "__main__":
    import sys, json
    for f in sys.argv[1:]:
        try:
            ast = parse(open(f).read())
            print(f, "ok", len(ast["items"]), "items", len(ast["routers"]), "routers")
        except ParseError as e:
            print(f, "PARSE ERROR", e)
