#!/usr/bin/env python3
"""setup_cmd: full Coq build (.vo, not -vos) of everything under coq/, offline."""
import os, sys, subprocess
V = os.path.dirname(os.path.dirname(os.path.abspath(__file__)))
sys.path.insert(0, os.path.join(V, "lib"))
import vlib
vlib.ensure_makefile()
rc = subprocess.call(["timeout", "3000", "make", "-C", vlib.COQ, "-j16"])
if rc != 0:
    print("setup: Coq build failed", file=sys.stderr)
    sys.exit(rc)
# forbidden constructs anywhere in the development
bad = subprocess.run("grep -rnE 'Admitted|admit\\.|^\\s*Axiom |^\\s*Parameter |^\\s*Conjecture |Unset Guard|bypass_check|Admit Obligations' --include=*.v " + vlib.COQ,
                     shell=True, stdout=subprocess.PIPE, text=True).stdout
if bad.strip():
    print("setup: forbidden constructs:\n" + bad, file=sys.stderr)
    sys.exit(3)
print("setup ok")
