#!/usr/bin/env python3
"""Run the checks against a change that is supposed to keep every property true (false-alarm test).

usage: tools/harmlesscheck.py <out_dir> <name> --checks C01,C02,...
  out_dir: directory with patch.diff and meta.json written by an independent sub-agent
  name:    directory name under /verif/harmless/ to keep it in

Scratch worktree /tmp/hv-<name> (= /repo HEAD + patch), removed afterwards; /repo is never touched.
Every check listed must exit 0 on the patched tree; an exit 1 is a false alarm of the machinery (or the
change is not harmless after all - decided by reading the replay).
"""
import json, os, re, shutil, subprocess, sys, time

V = os.path.dirname(os.path.dirname(os.path.abspath(__file__)))
ENV = dict(os.environ, GOWORK="off", GOFLAGS="-mod=mod", GOPROXY="off")
for k in ("GOTOOLCHAIN", "GOSUMDB"):
    ENV.pop(k, None)
SKIP = {"internal/k8s/controllers": "-skip TestManager"}


def sh(cmd, cwd=None, env=None, timeout=3600):
    p = subprocess.run(cmd, cwd=cwd, env=env or ENV, shell=True, stdout=subprocess.PIPE, stderr=subprocess.STDOUT, text=True, timeout=timeout)
    return p.returncode, p.stdout


def main():
    out_dir, name = sys.argv[1], sys.argv[2]
    checks = sys.argv[sys.argv.index("--checks") + 1].split(",")
    meta = json.load(open(os.path.join(out_dir, "meta.json")))
    patch = os.path.join(out_dir, "patch.diff")
    A = "/tmp/hv-%s" % name
    sh("git -C /repo worktree remove --force %s" % A)
    rc, o = sh("git -C /repo worktree add -q %s HEAD" % A)
    assert rc == 0, o
    res = {"checked_at": time.strftime("%Y-%m-%d %H:%M:%S"), "checks": {}}
    try:
        rc, o = sh("git apply %s" % patch, cwd=A)
        res["patch_applies"] = rc == 0
        if rc == 0:
            touched = sorted({os.path.dirname(f) for f in re.findall(r'^\+\+\+ b/(\S+)', open(patch).read(), re.M)})
            rc, o = sh("go build ./...", cwd=A)
            res["builds"] = rc == 0
            res["package_tests"] = {}
            for pkg in touched:
                if pkg.startswith("internal/bgp/frr") and not pkg.startswith("internal/bgp/frrk8s"):
                    res["package_tests"][pkg] = "skipped (needs Docker)"
                    continue
                rc, o = sh("go test -vet=off -count=1 %s ./%s/" % (SKIP.get(pkg, ""), pkg), cwd=A)
                res["package_tests"][pkg] = "ok" if rc == 0 else "FAIL: " + o[-600:]
            for c in checks:
                t0 = time.time()
                rc, o = sh("./check %s --tier quick" % c, cwd=V, env=dict(os.environ, VERIF_REPO=A))
                lines = [l[:400] for l in o.splitlines() if l.startswith(("VIOLATION", "OK ", "BROKEN")) or l.strip().startswith(("what:", "broken "))]
                res["checks"][c] = {"exit": rc, "lines": lines[:8], "wall_s": round(time.time() - t0, 1)}
    finally:
        sh("git -C /repo worktree remove --force %s" % A)
    res["alarms"] = [c for c, r in res["checks"].items() if r["exit"] != 0]
    dest = os.path.join(V, "harmless", name)
    os.makedirs(dest, exist_ok=True)
    shutil.copy(patch, os.path.join(dest, "patch.diff"))
    meta["coordinator_run"] = res
    json.dump(meta, open(os.path.join(dest, "meta.json"), "w"), indent=1)
    if not res.get("patch_applies", True):
        print(name, "PATCH DOES NOT APPLY to the current /repo HEAD - nothing was checked")
    print(name, "builds", res.get("builds"), "tests", res.get("package_tests"), "alarms", res["alarms"])
    for c in res["alarms"]:
        for l in res["checks"][c]["lines"]:
            print("   ", c, l[:300])


if __name__ == "__main__":
    main()
