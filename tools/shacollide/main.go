// shacollide: offline birthday search for node names whose election digests share a prefix.
// The layer-2 election (speaker/layer2_controller.go ShouldAnnounce) orders the candidates by
// sha256("<node>#<first address>") compared as whole byte strings.  An implementation that compares
// only a prefix of the digest is indistinguishable on random names; this tool finds, for given
// addresses, pairs of names worker-<n> whose digests share exactly their first k bytes, k = 1..5
// (k = 4: a 32-bit prefix collision, ~100k names suffice; k = 5: a few million names).
// usage: shacollide <out.json> <n-names> <address>...      (stdlib only; corpus/C12/sha-prefix-collisions.json)
package main

import (
	"crypto/sha256"
	"encoding/hex"
	"encoding/json"
	"fmt"
	"os"
	"sort"
	"strconv"
)

type entry struct {
	IP      string `json:"ip"`
	A       string `json:"a"`
	B       string `json:"b"`
	Shared  int    `json:"shared_bytes"`
	DigestA string `json:"digest_a"`
	DigestB string `json:"digest_b"`
}

type rec struct {
	p uint64 // first 6 bytes of the digest
	n uint32
}

func digest(n uint32, ip string) [32]byte {
	return sha256.Sum256([]byte("worker-" + strconv.Itoa(int(n)) + "#" + ip))
}

func shared(a, b [32]byte) int {
	k := 0
	for k < 32 && a[k] == b[k] {
		k++
	}
	return k
}

func main() {
	if len(os.Args) < 4 {
		fmt.Fprintln(os.Stderr, "usage: shacollide <out.json> <n-names> <address>...")
		os.Exit(2)
	}
	total, _ := strconv.Atoi(os.Args[2])
	var out []entry
	for _, ip := range os.Args[3:] {
		recs := make([]rec, total)
		for i := 0; i < total; i++ {
			d := digest(uint32(i), ip)
			recs[i] = rec{uint64(d[0])<<40 | uint64(d[1])<<32 | uint64(d[2])<<24 | uint64(d[3])<<16 | uint64(d[4])<<8 | uint64(d[5]), uint32(i)}
		}
		sort.Slice(recs, func(i, j int) bool { return recs[i].p < recs[j].p })
		// adjacent records share the longest prefixes; keep, per k, the pair with the smallest names
		best := map[int][2]uint32{}
		for i := 0; i+1 < total; i++ {
			a, b := digest(recs[i].n, ip), digest(recs[i+1].n, ip)
			k := shared(a, b)
			if k == 0 {
				continue
			}
			x, y := recs[i].n, recs[i+1].n
			if x > y {
				x, y = y, x
			}
			if cur, ok := best[k]; !ok || y < cur[1] {
				best[k] = [2]uint32{x, y}
			}
		}
		var ks []int
		for k := range best {
			ks = append(ks, k)
		}
		sort.Ints(ks)
		for _, k := range ks {
			p := best[k]
			a, b := digest(p[0], ip), digest(p[1], ip)
			out = append(out, entry{ip, "worker-" + strconv.Itoa(int(p[0])), "worker-" + strconv.Itoa(int(p[1])), k, hex.EncodeToString(a[:]), hex.EncodeToString(b[:])})
		}
	}
	f, err := os.Create(os.Args[1])
	if err != nil {
		panic(err)
	}
	enc := json.NewEncoder(f)
	enc.SetIndent("", " ")
	if err := enc.Encode(out); err != nil {
		panic(err)
	}
	f.Close()
}
