module verif/shacollide

go 1.21
