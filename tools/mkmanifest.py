#!/usr/bin/env python3
"""Regenerates /verif/MANIFEST.json from the table below (one entry per claimed property)."""
import json, os
V = os.path.dirname(os.path.dirname(os.path.abspath(__file__)))
ALL = ["C%02d" % i for i in range(1, 21)]

BASE_NOTE = ("Trusted: Coq 8.16.1 kernel + vm_compute (no native_compute); the hand-written Gallina model and the differential "
             "correspondence harness (Go overlay files, build tag verif, lib/vlib.py) that ties it to /repo on every run; "
             "Go toolchain and the modelled libraries. Print Assumptions of every property theorem is re-run and checked on every run. ")

CLAIMS = {
 "C12": dict(
   engine="elect",
   technique="Coq proof (argmin lemmas by induction over the candidate list) + differential correspondence of ShouldAnnounce vs model with in-Coq SHA-256",
   text="Theorems C12_* (Properties/C12.v) prove for all hash functions, all candidate lists and all removed/added sets that the argmin election "
        "keeps the announcer unless it leaves or an added node wins, is order/multiplicity independent and depends only on names+address; "
        "C12_code_connection ties argmin to the transcription of ShouldAnnounce, which is compared with the real ShouldAnnounce on every node of generated views each run.",
   note=BASE_NOTE + "H-sha (no SHA-256 collision inside one election) is the explicit premise inj_on; sort.Slice returns the least element first.",
   ref="4/C12"),
 "C04": dict(
   engine="elect",
   technique="Coq proof (decide <-> eligible /\\ least hash; uniqueness) + differential correspondence; F8 refutation theorem with witness",
   text="C04_exactly_one / C04_none_otherwise / C04_winner_eligible / C04_decide_spec hold for every view and every hash function; the clause "
        "'all services sharing an address elect the same node' is proved for equal first address and refuted in general (C04_shared_address_same_winner_refuted, "
        "KNOWN-FINDING F8 reproduced on the code each run).",
   note=BASE_NOTE + "H-sha as premise; all speakers are assumed to share the view (the property's own premise).",
   ref="4/C04"),
}

ENGINES = [
 {"name": "elect", "path": "coq/Model/Elect.v coq/Proofs/ElectP.v coq/Corr/Run_Elect.v harness/speaker/zz_verif_l2_test.go props/elect_common.py",
  "serves_properties": ["C04", "C12"], "kind_free_text": "Coq model+proofs of the layer-2 election, Go differential harness"},
]

def main():
    checks = []
    for pid in ALL:
        c = CLAIMS.get(pid)
        if not c or not os.path.exists(os.path.join(V, "props", pid + ".py")):
            continue
        checks.append({
            "property_id": pid,
            "quick_cmd": "./check %s --tier quick" % pid,
            "thorough_cmd": "./check %s --tier thorough" % pid,
            "evidence_file": "/verif/evidence/%s.json" % pid,
            "replay_cmd_template": "./check %s --tier quick --replay {path}" % pid,
            "engine": c["engine"],
            "level_claimed": {"category": c.get("category", "proof"), "text": c["text"], "design_ref": "DESIGN.md section " + c["ref"]},
            "level_note": c["note"],
            "technique": c["technique"],
        })
    claimed = {c["property_id"] for c in checks}
    na = [{"property_id": p, "reason": "not claimed yet: model/proofs/harness for this property are still being built (see DESIGN.md section 7 build order); the technique applies"}
          for p in ALL if p not in claimed]
    m = {
        "version": 1,
        "setup_cmd": "python3 tools/setup.py",
        "hooks": {"guard": "verif",
                  "enable": "go test -tags verif -overlay <generated json>: all instrumentation is overlay-only (files under /verif/harness), nothing is committed to /repo",
                  "baseline_off_cmd": "for m in $(cat /w/out/gomods.txt); do MF=$(cd /repo/$m && . /w/out/goenv.sh && gomodflag); (cd /repo/$m && go test $MF -json -vet=off -count=1 -timeout 25m ./...); done",
                  "source_commits": [], "add_only": True},
        "engines": ENGINES,
        "checks": checks,
        "notes": "Machine-checked proof in Coq 8.16.1 about executable models, tied to /repo by differential correspondence on every run. See DESIGN.md.",
        "not_applicable": na,
    }
    json.dump(m, open(os.path.join(V, "MANIFEST.json"), "w"), indent=1)
    print("MANIFEST.json: %d checks, %d not claimed" % (len(checks), len(na)))

if __name__ == "__main__":
    main()
