#!/usr/bin/env python3
"""Regenerates /verif/MANIFEST.json from the table below (one entry per claimed property)."""
import json, os
V = os.path.dirname(os.path.dirname(os.path.abspath(__file__)))
ALL = ["C%02d" % i for i in range(1, 21)]

BASE_NOTE = ("Trusted: Coq 8.16.1 kernel + vm_compute (no native_compute); the hand-written Gallina model and the differential "
             "correspondence harness (Go overlay files, build tag verif, lib/vlib.py) that ties it to /repo on every run; "
             "Go toolchain and the modelled libraries. Print Assumptions of every property theorem is re-run and checked on every run. ")

def ready():
    """props/READY: ids whose check has been run by the coordinator on the clean tree and passes"""
    f = os.path.join(V, "props", "READY")
    return set(open(f).read().split()) if os.path.exists(f) else set()

def load_claims():
    """props/Cxx.claim.json: {engine, technique, text, note, ref, [category], [engine_paths], [engine_kind]}"""
    claims = {}
    for pid in ALL:
        f = os.path.join(V, "props", pid + ".claim.json")
        if os.path.exists(f):
            claims[pid] = json.load(open(f))
    return claims

def engines(claims, claimed):
    es = {}
    for pid, c in claims.items():
        if pid not in claimed:
            continue
        e = es.setdefault(c["engine"], {"name": c["engine"], "path": c.get("engine_paths", ""), "serves_properties": [],
                                        "kind_free_text": c.get("engine_kind", "Coq model + proofs, Go differential harness")})
        e["serves_properties"].append(pid)
        if c.get("engine_paths") and not e["path"]:
            e["path"] = c["engine_paths"]
    return list(es.values())

def main():
    CLAIMS = load_claims()
    checks = []
    for pid in ALL:
        c = CLAIMS.get(pid)
        if not c or not os.path.exists(os.path.join(V, "props", pid + ".py")) or pid not in ready():
            continue
        checks.append({
            "property_id": pid,
            "quick_cmd": "./check %s --tier quick" % pid,
            "thorough_cmd": "./check %s --tier thorough" % pid,
            "evidence_file": "/verif/evidence/%s.json" % pid,
            "replay_cmd_template": "./check %s --tier quick --replay {path}" % pid,
            "engine": c["engine"],
            "level_claimed": {"category": c.get("category", "proof"), "text": c["text"], "design_ref": "DESIGN.md section " + c["ref"]},
            "level_note": BASE_NOTE + c["note"],
            "technique": c["technique"],
        })
    claimed = {c["property_id"] for c in checks}
    na = [{"property_id": p, "reason": "not claimed yet: model/proofs/harness for this property are still being built (see DESIGN.md section 7 build order); the technique applies"}
          for p in ALL if p not in claimed]
    m = {
        "version": 1,
        "setup_cmd": "python3 tools/setup.py",
        "hooks": {"guard": "verif",
                  "enable": "go test -tags verif -overlay <generated json>: all instrumentation is overlay-only (files under /verif/harness), nothing is committed to /repo",
                  "baseline_off_cmd": "for m in $(cat /w/out/gomods.txt); do MF=$(cd /repo/$m && . /w/out/goenv.sh && gomodflag); (cd /repo/$m && go test $MF -json -vet=off -count=1 -timeout 25m ./...); done",
                  "source_commits": [], "add_only": True},
        "engines": engines(CLAIMS, claimed),
        "checks": checks,
        "notes": "Machine-checked proof in Coq 8.16.1 about executable models, tied to /repo by differential correspondence on every run. See DESIGN.md.",
        "not_applicable": na,
    }
    json.dump(m, open(os.path.join(V, "MANIFEST.json"), "w"), indent=1)
    print("MANIFEST.json: %d checks, %d not claimed" % (len(checks), len(na)))

if __name__ == "__main__":
    main()
