// lockfacts: translate the lock structure of the files anchored by property
// C20 into Coq facts (stdlib go/ast only, no type checker).
//
//	lockfacts <repo root> <out.v>
//
// For every function of the analysed files that touches a guarded field or a
// guarding mutex it emits the flat sequence
//
//	Acq m | AcqR m | Rel m | RelR m | Rd f | WrW f | WrE f | Call g | CallCb c | Send ch | Recv ch
//
// in source order; `defer` runs at the end in reverse order of registration.
// The flat form is an over-approximation of every path through the function
// PROVIDED lock operations occur only as top-level statements of the function
// body (or in a top-level defer); any function violating that is listed in
// [unstructured] and the Coq obligation repo_well_locked fails.
// WrW = the field itself is assigned; WrE = an element is changed in place
// (index assignment, delete, ++/--, append to an element, Insert/Delete on a
// set element).  Send ch = a blocking send on a channel field of the struct (a
// send under a select with a default clause is not emitted), Recv ch = a receive.
// Further facts: which Handler: fields k8s.go registers, which
// Listener callbacks the two programs install, which functions return a
// guarded slice / map / pointer without copying (escapes).
package main

import (
	"fmt"
	"go/ast"
	"go/parser"
	"go/token"
	"os"
	"path/filepath"
	"reflect"
	"sort"
	"strings"
)

type guardSpec struct {
	file    string
	strct   string
	mutex   string   // field name; "" = embedded sync.Mutex / sync.RWMutex
	guarded []string // DECLARED guarded fields (properties.jsonl, C20 anchors.state)
	infer   bool     // additionally INFER guarded fields (see inferGuards)
	tag     string   // prefix of the emitted names when the struct name is not unique across packages
	// notification analysis only: a struct without mutex whose methods drive a component of another
	// package (field name -> struct name of the component) and notify through a callback field
	noMutex    bool
	components map[string]string
}

// notifier: callback field, the guarded fields its consumer's fetcher reads, strict (an unconditional
// last write needs an unconditional last notification), name prefix of the notifying struct's functions.
// adsChangedCallback is invoked per CHANGED service from a loop in a deferred closure, so it is
// conditional by design: order only.
// The fields are not named here: they are the guarded fields (declared or inferred) the fetcher of the
// struct reads, so that a renamed / re-represented field keeps its notification obligation.
var notifiers = []struct {
	callback, fetcherStruct string
	strict                  bool
	prefix                  string
}{
	{"countersChangedCallback", "Allocator", true, "Allocator."},
	{"adsChangedCallback", "bgpController", false, "bgpController."},
	{"onStatusChange", "Announce", true, "layer2Controller."},
}

var notifySpecs = []guardSpec{
	{file: "internal/allocator/allocator.go", strct: "Allocator", mutex: "countersMutex", guarded: []string{"poolToCounters"}},
	{file: "speaker/bgp_controller.go", strct: "bgpController", mutex: "activeAdsMutex", guarded: []string{"activeAds"}},
	{file: "internal/layer2/announcer.go", strct: "Announce", guarded: []string{"nodeInterfaces", "arps", "ndps", "ips", "ipRefcnt"}},
	{file: "speaker/layer2_controller.go", strct: "layer2Controller", noMutex: true, components: map[string]string{"announcer": "Announce"}},
}

// The mutex-carrying structs of the code the property's anchors touch.  For the first four the
// guarded fields are DECLARED (properties.jsonl); for every struct with infer=true a field is
// additionally INFERRED to be guarded by the struct's mutex when some function of the package
// (other than a constructor, i.e. a function building the struct with a composite literal)
// writes it while holding that mutex exclusively by its own Lock()  —  see inferGuards.
var specs = []guardSpec{
	{"internal/k8s/listener.go", "Listener", "", nil, false, "", false, nil},
	{"internal/allocator/allocator.go", "Allocator", "countersMutex", []string{"poolToCounters"}, true, "", false, nil},
	{"speaker/bgp_controller.go", "bgpController", "activeAdsMutex", []string{"activeAds"}, true, "", false, nil},
	{"internal/layer2/announcer.go", "Announce", "", []string{"nodeInterfaces", "arps", "ndps", "ips", "ipRefcnt"}, true, "", false, nil},
	{"internal/bgp/frr/frr.go", "sessionManager", "", nil, true, "frr", false, nil},
	{"internal/bgp/frrk8s/frrk8s.go", "sessionManager", "", nil, true, "frrk8s", false, nil},
	{"internal/bgp/native/native.go", "session", "mu", nil, true, "native", false, nil},
	{"internal/speakerlist/speakerlist.go", "SpeakerList", "mlMux", nil, true, "", false, nil},
	{"internal/k8s/controllers/frrk8s_config_controller.go", "FRRK8sReconciler", "", nil, true, "", false, nil},
}

// the status fetchers handed to the status reconcilers (they run outside the Listener mutex)
var fetcherMethods = map[string]string{ // struct -> method
	"Allocator":     "CountersForPool",
	"bgpController": "PeersForService",
	"Announce":      "GetStatus",
}

// callbacks whose target is known: frrk8s sessionManager.configChangedCallback is the function
// handed to SetEventCallback, which speaker/main.go feeds with client.BGPEventCallback, which
// internal/k8s/k8s.go sets to frrk8sController.UpdateConfig.  The binding is used only when
// bindingSites finds those three statements.
var callbackBinding = map[string]string{"frrk8s/sessionManager.configChangedCallback": "FRRK8sReconciler.UpdateConfig"}
var bindingOK bool

type instr struct{ op, arg string }

type namedIR struct {
	name string
	ir   []instr
}

type fileCtx struct {
	spec                            guardSpec
	fset                            *token.FileSet
	file                            *ast.File
	mutexName                       string          // e.g. "Allocator.countersMutex"
	embedded                        bool            // lock methods are called on the receiver itself
	guarded                         map[string]bool // field names
	fieldType                       map[string]ast.Expr
	cbFields                        map[string]bool          // func-typed fields of the struct (Listener)
	chFields                        map[string]bool          // channel-typed fields of the struct
	structs                         map[string]bool          // struct types declared in this file
	funcs                           map[string]*ast.FuncDecl // qualified name -> decl
	primary                         map[*ast.FuncDecl]bool   // declared in the anchored file (not in a sibling file of the package)
	cur                             *ast.FuncDecl            // function being translated
	methods                         map[string]string        // method name -> qualified name (methods of spec.strct)
	aliasFields                     map[string]bool          // fields (of any struct of the package) of type S / *S
	condFields                      map[string]bool          // sync.Cond fields of S
	allFields                       []string                 // every named field of S, declaration order
	nonBlocking                     map[*ast.SendStmt]bool
	spawned                         map[string]bool              // functions started with `go`
	valueUsed                       map[string]bool              // methods used as values (callbacks)
	anon                            []namedIR                    // function literals that run later: entry points of their own
	chanBind                        map[string]map[string]string // function -> parameter -> channel field its call sites pass
	chanAlias                       map[string]map[string]string // the bindings in force (previous pass)
	constructor                     map[string]bool              // functions that build the struct with a composite literal
	sname                           string                       // emitted struct name (tag/strct)
	inlinedClosures                 map[string]bool
	spawnSites                      map[string][]string // function -> functions containing the go statement starting it
	marks                           bool                // bracket conditionally executed blocks with CondB / CondE (notification analysis)
	savedUnstructured, savedMayLeak []string
	plain                           map[string]string // package-level function name -> qualified name
	stale                           []string          // declared guarded fields the struct does not have
}

var problems []string
var unstructured []string
var mayLeak []string

func problem(f string, a ...any) { problems = append(problems, fmt.Sprintf(f, a...)) }

func main() {
	if len(os.Args) != 3 {
		fmt.Fprintln(os.Stderr, "usage: lockfacts <repo> <out.v>")
		os.Exit(2)
	}
	repo, out := os.Args[1], os.Args[2]
	bindingOK = bindingSites(repo)
	var b strings.Builder
	b.WriteString("(* GENERATED by tools/lockfacts from " + repo + " — do not edit *)\n")
	b.WriteString("From Coq Require Import List String.\nFrom Verif Require Import Model.Lock.\nImport ListNotations.\nLocal Open Scope string_scope.\n\n")

	var guardsDeclared, guardsInferred, inferable, owners [][2]string
	var allFuncs []namedIR
	var entries []string
	var escapes [][2]string
	var callbacks []string
	var fetchers []string
	var covered []string
	var skeletons []string
	var staleDecl []string
	var unlockStyle []string
	fetched := map[string][]string{} // struct -> guarded fields (declared or inferred) its status fetcher reads
	for _, sp := range specs {
		fc := load(repo, sp)
		if fc == nil {
			continue
		}
		covered = append(covered, fmt.Sprintf("%s (%s, mutex %s)", fc.sname, filepath.Dir(sp.file), fc.mutexName))
		declared := map[string]bool{}
		for _, g := range sp.guarded {
			if fc.fieldType[g] == nil {
				continue // stale declaration, see load
			}
			declared[g] = true
			guardsDeclared = append(guardsDeclared, [2]string{fc.q(g), fc.mutexName})
		}
		var inferredHere []string
		if sp.infer {
			for _, g := range fc.inferGuards() {
				inferable = append(inferable, [2]string{fc.mutexName, fc.q(g)})
				if !declared[g] {
					guardsInferred = append(guardsInferred, [2]string{fc.q(g), fc.mutexName})
					inferredHere = append(inferredHere, fc.q(g))
				}
			}
		}
		for _, g := range fc.stale {
			staleDecl = append(staleDecl, fmt.Sprintf("(%q, %q, %s)", fc.q(g), fc.mutexName, strList(inferredHere)))
			if len(inferredHere) == 0 && len(declared) == 0 {
				// nothing replaces the declaration: the struct's mutex guards no field at all
				problem("%s: declared guarded field %s.%s is missing and no field of the struct is written under %s", sp.file, sp.strct, g, fc.mutexName)
			}
		}
		if sp.strct == "Listener" {
			for c := range fc.cbFields {
				callbacks = append(callbacks, c)
			}
			// how every method of the Listener that takes its mutex gives it back: by a DEFERRED unlock
			// (runs when the handler panics and controller-runtime recovers the reconcile) or by a plain
			// statement after the call (skipped by a panic: the mutex stays held for ever)
			var ws []string
			for name, fd := range fc.funcs {
				if !fc.primary[fd] || fd.Recv == nil || recvType(fd.Recv.List[0].Type) != "Listener" {
					continue
				}
				fc.cur = fd
				locks, deferred, plain := 0, 0, 0
				ast.Inspect(fd.Body, func(x ast.Node) bool {
					switch t := x.(type) {
					case *ast.FuncLit:
						return false
					case *ast.DeferStmt:
						if op, ok := fc.lockOp(t.Call); ok && (op == "Rel" || op == "RelR") {
							deferred++
						}
						return false
					case *ast.ExprStmt:
						if op, ok := fc.lockOp(t.X); ok {
							if op == "Acq" || op == "AcqR" {
								locks++
							} else {
								plain++
							}
						}
					}
					return true
				})
				if locks > 0 {
					ws = append(ws, fmt.Sprintf("(%q, %v)", name, deferred == locks && plain == 0))
				}
			}
			sort.Strings(ws)
			unlockStyle = ws
		}
		if m, ok := fetcherMethods[sp.strct]; ok && sp.tag == "" {
			q := sp.strct + "." + m
			if fd := fc.funcs[q]; fd != nil {
				fetchers = append(fetchers, fmt.Sprintf("(%q, %q, %s)", q, sp.strct, strList(receiverFields(fd))))
				for _, f := range receiverFields(fd) {
					if fc.guarded[f] {
						fetched[sp.strct] = append(fetched[sp.strct], fc.q(f))
					}
				}
			} else {
				problem("%s: fetcher %s not found", sp.file, q)
			}
		}
		if sp.strct == "Announce" { // the functions Model/Announcer*.v transcribes: their control skeleton
			for name, fd := range fc.funcs {
				if fc.primary[fd] && fd.Recv != nil && recvType(fd.Recv.List[0].Type) == "Announce" {
					skeletons = append(skeletons, fmt.Sprintf("(%q, %s)", name, skeletonOf(fd)))
				}
			}
			sort.Strings(skeletons)
		}
		irs, names := fc.translateAll()
		for _, name := range names {
			if fd := fc.funcs[name]; fd != nil {
				fc.cur = fd
				for _, e := range fc.escapesOf(fd) {
					escapes = append(escapes, [2]string{name, fc.q(e)})
				}
			}
		}
		// keep functions that do something with locks / guarded fields, directly or through calls
		interesting := map[string]bool{}
		for changed := true; changed; {
			changed = false
			for _, n := range names {
				if interesting[n] {
					continue
				}
				for _, i := range irs[n] {
					if i.op != "Call" || interesting[i.arg] || crossCall(i.arg) {
						interesting[n] = true
						changed = true
						break
					}
				}
			}
		}
		// a function is an ENTRY POINT (a goroutine may start in it with no lock held) unless it is
		// unexported, called from the analysed code, never started with `go` nor used as a value
		called := map[string]bool{}
		for _, n := range names {
			for _, i := range irs[n] {
				if i.op == "Call" && i.arg != n {
					called[i.arg] = true
				}
			}
		}
		isExported := func(n string) bool {
			base := n[strings.LastIndex(n, ".")+1:]
			return base != "" && base[0] >= 'A' && base[0] <= 'Z'
		}
		var specEntries []string
		for _, n := range names {
			if interesting[n] && (strings.Contains(n, "$") || isExported(n) || fc.spawned[n] || fc.valueUsed[n] || !called[n]) {
				specEntries = append(specEntries, n)
			}
		}
		// OWNER facts: a guarded field all of whose writes (calls inlined) are made by ONE entry point
		// that is an unexported function started by exactly one `go` statement, located in a
		// constructor of the struct, and neither called nor used as a value anywhere: one such
		// goroutine exists per object.  It may read the field without the mutex (owner rule).
		ownerToken := map[string]string{}
		for g := range fc.guarded {
			field := fc.q(g)
			var writers []string
			for _, e := range specEntries {
				for _, i := range inlineIR(irs, e, 8) {
					if (i.op == "WrW" || i.op == "WrE") && i.arg == field {
						writers = append(writers, e)
						break
					}
				}
			}
			if len(writers) != 1 {
				continue
			}
			e := writers[0]
			sites := fc.spawnSites[e]
			if isExported(e) || strings.Contains(e, "$") || called[e] || fc.valueUsed[e] || len(sites) != 1 || !fc.constructor[sites[0]] {
				continue
			}
			ownerToken[e] = "owner:" + e
			owners = append(owners, [2]string{field, "owner:" + e})
		}
		for _, n := range names {
			if !interesting[n] {
				continue
			}
			var ir []instr
			if t := ownerToken[n]; t != "" {
				ir = append(ir, instr{"Acq", t})
			}
			for _, i := range irs[n] {
				if i.op == "Call" && !interesting[i.arg] && !crossCall(i.arg) {
					continue
				}
				ir = append(ir, i)
			}
			if t := ownerToken[n]; t != "" {
				ir = append(ir, instr{"Rel", t})
			}
			allFuncs = append(allFuncs, namedIR{n, ir})
		}
		entries = append(entries, specEntries...)
	}
	sort.Strings(callbacks)
	sort.Slice(escapes, func(i, j int) bool { return escapes[i][0]+escapes[i][1] < escapes[j][0]+escapes[j][1] })

	registered := registrations(repo)
	mains := mainCallbacks(repo)

	b.WriteString("(* covered structs: " + strings.Join(covered, "; ") + " *)\n")
	b.WriteString("(* guard map, DECLARED part (properties.jsonl anchors) *)\n")
	b.WriteString("Definition guards_declared : list (string * string) := " + pairListNL(guardsDeclared) + ".\n")
	b.WriteString("(* guard map, INFERRED part: field written under the struct's mutex by some non-constructor function *)\n")
	b.WriteString("Definition guards_inferred : list (string * string) := " + pairListNL(guardsInferred) + ".\n")
	b.WriteString("Definition guards : list (string * string) := (guards_declared ++ guards_inferred)%list.\n")
	sort.Slice(owners, func(i, j int) bool { return owners[i][0] < owners[j][0] })
	b.WriteString("(* OWNER facts (field, token): every write of the field is made by the one goroutine started once per object *)\n")
	b.WriteString("Definition owners : list (string * string) := " + pairList(owners) + ".\n")
	b.WriteString("(* (mutex, field) for every field the inference rule yields, declared ones included *)\n")
	b.WriteString("Definition inferable : list (string * string) := " + pairList(inferable) + ".\n")
	b.WriteString("\nDefinition funcs : list (string * list instr) := [\n")
	for i, f := range allFuncs {
		b.WriteString(fmt.Sprintf("  (%q, [%s])%s\n", f.name, irString(f.ir), sep(i, len(allFuncs))))
	}
	b.WriteString("].\n\n")
	// the program for the notification analysis: same translation with conditional blocks bracketed
	var nfuncs []namedIR
	var nentries []string
	seenN := map[string]bool{}
	for _, sp := range notifySpecs {
		savedU, savedL, savedP := unstructured, mayLeak, problems
		fc := load(repo, sp)
		if fc != nil {
			if !sp.noMutex {
				fc.inferGuards()
				for _, g := range sp.guarded {
					if fc.fieldType[g] != nil {
						fc.guarded[g] = true
					}
				}
			}
			fc.marks = true
			irs, names := fc.translateAll()
			interesting := map[string]bool{}
			for changed := true; changed; {
				changed = false
				for _, n := range names {
					if interesting[n] {
						continue
					}
					for _, i := range irs[n] {
						if i.op == "CondB" || i.op == "CondE" {
							continue
						}
						if i.op != "Call" || interesting[i.arg] || crossCall(i.arg) {
							interesting[n] = true
							changed = true
							break
						}
					}
				}
			}
			called := map[string]bool{}
			for _, n := range names {
				for _, i := range irs[n] {
					if i.op == "Call" && i.arg != n {
						called[i.arg] = true
					}
				}
			}
			for _, n := range names {
				if !interesting[n] || seenN[n] {
					continue
				}
				seenN[n] = true
				var ir []instr
				for _, i := range irs[n] {
					if i.op == "Call" && !interesting[i.arg] && !crossCall(i.arg) {
						continue
					}
					ir = append(ir, i)
				}
				nfuncs = append(nfuncs, namedIR{n, ir})
				base := n[strings.LastIndex(n, ".")+1:]
				if strings.Contains(n, "$") || (base != "" && base[0] >= 'A' && base[0] <= 'Z') || fc.spawned[n] || fc.valueUsed[n] || !called[n] {
					nentries = append(nentries, n)
				}
			}
		}
		unstructured, mayLeak = savedU, savedL
		if sp.noMutex {
			problems = savedP
		}
	}
	b.WriteString("(* the same translation with conditionally executed blocks bracketed, for the notification analysis *)\n")
	b.WriteString("Definition nfuncs : list (string * list instr) := [\n")
	for i, f := range nfuncs {
		b.WriteString(fmt.Sprintf("  (%q, [%s])%s\n", f.name, irString(f.ir), sep(i, len(nfuncs))))
	}
	b.WriteString("].\nDefinition nentries : list string := " + strList(nentries) + ".\n")
	b.WriteString("(* callback, fields its consumer's fetcher reads, strict?, prefix of the notifying struct's functions *)\n")
	var nots []string
	for _, n := range notifiers {
		if len(fetched[n.fetcherStruct]) == 0 {
			problem("notifier %s: the fetcher of %s reads no guarded field", n.callback, n.fetcherStruct)
		}
		strict := "false"
		if n.strict {
			strict = "true"
		}
		nots = append(nots, fmt.Sprintf("(%q, %s, %s, %q)", n.callback, strList(fetched[n.fetcherStruct]), strict, n.prefix))
	}
	b.WriteString("Definition notifiers : list (string * list string * bool * string) := [\n  " + strings.Join(nots, ";\n  ") + "\n].\n\n")
	b.WriteString("(* DECLARED guarded fields the struct no longer has: (field, mutex, fields inferred guarded instead).\n   Coverage note only; the struct is checked against the inferred discipline. *)\n")
	b.WriteString("Definition stale_declarations : list (string * string * list string) := [" + strings.Join(staleDecl, "; ") + "].\n")
	var binds [][2]string
	if bindingOK {
		for k, v := range callbackBinding {
			binds = append(binds, [2]string{k, v})
		}
	}
	b.WriteString("(* callback fields whose target is known (wiring statements found): their calls are emitted as Call *)\n")
	b.WriteString("Definition callback_bindings : list (string * string) := " + pairList(binds) + ".\n")
	b.WriteString("(* functions a goroutine may start in with no lock held; the others are reached only through calls *)\n")
	b.WriteString("Definition entries : list string := " + strList(entries) + ".\n")
	b.WriteString("Definition unstructured : list string := " + strList(dedup(unstructured)) + ".\n")
	b.WriteString("Definition may_leak : list string := " + strList(dedup(mayLeak)) + ".\n")
	b.WriteString("Definition spec_problems : list string := " + strList(problems) + ".\n")
	b.WriteString("Definition listener_callbacks : list string := " + strList(callbacks) + ".\n")
	b.WriteString("(* Listener method that takes the Listener mutex, every unlock is a deferred one *)\n")
	b.WriteString("Definition wrapper_unlocks : list (string * bool) := [" + strings.Join(unlockStyle, "; ") + "].\n")
	b.WriteString("(* reconciler type, expression registered as its Handler *)\n")
	b.WriteString("Definition registered : list (string * string) := " + pairList(registered) + ".\n")
	b.WriteString("(* program, Listener callback it installs *)\n")
	b.WriteString("Definition main_callbacks : list (string * string) := " + pairList(mains) + ".\n")
	b.WriteString("(* status fetcher, its struct, every receiver field it touches *)\n")
	b.WriteString("Definition fetchers : list (string * string * list string) := [" + strings.Join(fetchers, "; ") + "].\n")
	b.WriteString("(* program, name a function literal used as status fetcher is stored under, fields / methods of the program's controller struct it touches *)\n")
	b.WriteString("Definition fetcher_closures : list (string * string * list string) := [" + strings.Join(fetcherClosures(repo), "; ") + "].\n")
	b.WriteString("(* program, fetcher method it hands to the status reconcilers *)\n")
	b.WriteString("Definition fetchers_wired : list (string * string) := " + pairList(wiredFetchers(repo)) + ".\n")
	b.WriteString("(* control skeleton of the announcer's methods: (a return outside every loop?, per loop in source\n   order (nesting depth, contains return, contains break of the loop, contains continue of the loop, names called in its body)) *)\n")
	b.WriteString("Definition skeletons : list (string * (bool * list (nat * bool * bool * bool * list string))) := [\n  " + strings.Join(skeletons, ";\n  ") + "\n].\n")
	b.WriteString("(* function, guarded field it hands out by reference *)\n")
	b.WriteString("Definition escapes : list (string * string) := " + pairList(escapes) + ".\n")
	if err := os.MkdirAll(filepath.Dir(out), 0o755); err != nil {
		panic(err)
	}
	if err := os.WriteFile(out, []byte(b.String()), 0o644); err != nil {
		panic(err)
	}
}

func dedup(xs []string) []string {
	seen := map[string]bool{}
	var out []string
	for _, x := range xs {
		if !seen[x] {
			seen[x] = true
			out = append(out, x)
		}
	}
	return out
}

func pairListNL(xs [][2]string) string {
	q := make([]string, len(xs))
	for i, x := range xs {
		q[i] = fmt.Sprintf("  (%q, %q)", x[0], x[1])
	}
	return "[\n" + strings.Join(q, ";\n") + "\n]"
}

// translateAll translates every function of the package with the current guarded set; channel
// parameter bindings found in one pass are in force in the next (two passes reach the fixpoint
// for the one-level forwarding the code uses)
func (fc *fileCtx) translateAll() (map[string][]instr, []string) {
	var names []string
	for name := range fc.funcs {
		names = append(names, name)
	}
	sort.Slice(names, func(i, j int) bool {
		fi, fj := fc.funcs[names[i]], fc.funcs[names[j]]
		pi, pj := fc.fset.Position(fi.Pos()), fc.fset.Position(fj.Pos())
		if fc.primary[fi] != fc.primary[fj] {
			return fc.primary[fi]
		}
		if pi.Filename != pj.Filename {
			return pi.Filename < pj.Filename
		}
		return pi.Line < pj.Line
	})
	var irs map[string][]instr
	var order []string
	for pass := 0; pass < 3; pass++ {
		unstructured, mayLeak = fc.savedUnstructured, fc.savedMayLeak
		fc.anon = nil
		fc.spawned, fc.valueUsed = map[string]bool{}, map[string]bool{}
		fc.spawnSites = map[string][]string{}
		fc.chanBind = map[string]map[string]string{}
		fc.nonBlocking = map[*ast.SendStmt]bool{}
		irs = map[string][]instr{}
		order = nil
		for _, name := range names {
			irs[name] = fc.funcIR(name, fc.funcs[name])
			order = append(order, name)
		}
		for _, a := range fc.anon {
			irs[a.name] = a.ir
			order = append(order, a.name)
		}
		alias := map[string]map[string]string{}
		for g, m := range fc.chanBind {
			alias[g] = map[string]string{}
			for p, f := range m {
				if f != "?" {
					alias[g][p] = f
				}
			}
		}
		fc.chanAlias = alias
	}
	return irs, order
}

// inferGuards: a field of the struct is INFERRED to be guarded by the struct's mutex when some
// function of the package that is not a constructor writes it (assignment, element update,
// delete, ++/--) at a point where the function itself holds the mutex exclusively (Lock() ...
// Unlock() / defer Unlock() in the same function).  Every other access to such a field must
// then hold the mutex too (repo_well_locked).  Fields only ever read under the mutex, or written
// only by constructors, are not guarded.  Afterwards fc.guarded = declared ∪ inferred.
func (fc *fileCtx) inferGuards() []string {
	declared := fc.guarded
	all := map[string]bool{}
	for _, f := range fc.allFields {
		if f != fc.spec.mutex && !fc.condFields[f] {
			all[f] = true
		}
	}
	fc.guarded = all
	irs, names := fc.translateAll()
	inferred := map[string]bool{}
	for _, n := range names {
		base := n
		if i := strings.Index(n, "$"); i >= 0 {
			base = n[:i]
		}
		if fc.constructor[base] {
			continue
		}
		held := 0
		for _, i := range inlineIR(irs, n, 8) {
			switch i.op {
			case "Acq":
				held++
			case "Rel":
				if held > 0 {
					held--
				}
			case "WrW", "WrE":
				if held > 0 {
					inferred[strings.TrimPrefix(i.arg, fc.sname+".")] = true
				}
			}
		}
	}
	fc.guarded = map[string]bool{}
	for g := range declared {
		fc.guarded[g] = true
	}
	var out []string
	for _, f := range fc.allFields {
		if inferred[f] {
			fc.guarded[f] = true
			out = append(out, f)
		}
	}
	return out
}

func sep(i, n int) string {
	if i+1 < n {
		return ";"
	}
	return ""
}

func strList(xs []string) string {
	q := make([]string, len(xs))
	for i, x := range xs {
		q[i] = fmt.Sprintf("%q", x)
	}
	return "[" + strings.Join(q, "; ") + "]"
}

func pairList(xs [][2]string) string {
	q := make([]string, len(xs))
	for i, x := range xs {
		q[i] = fmt.Sprintf("(%q, %q)", x[0], x[1])
	}
	return "[" + strings.Join(q, "; ") + "]"
}

func parse(repo, rel string) (*token.FileSet, *ast.File) {
	fset := token.NewFileSet()
	f, err := parser.ParseFile(fset, filepath.Join(repo, rel), nil, parser.SkipObjectResolution)
	if err != nil {
		problem("cannot parse %s: %v", rel, err)
		return nil, nil
	}
	return fset, f
}

func isSync(e ast.Expr, names ...string) bool {
	s, ok := e.(*ast.SelectorExpr)
	if !ok {
		return false
	}
	x, ok := s.X.(*ast.Ident)
	if !ok || x.Name != "sync" {
		return false
	}
	for _, n := range names {
		if s.Sel.Name == n {
			return true
		}
	}
	return false
}

func load(repo string, sp guardSpec) *fileCtx {
	fset, f := parse(repo, sp.file)
	if f == nil {
		return nil
	}
	fc := &fileCtx{spec: sp, fset: fset, file: f, guarded: map[string]bool{}, fieldType: map[string]ast.Expr{},
		cbFields: map[string]bool{}, chFields: map[string]bool{}, structs: map[string]bool{}, funcs: map[string]*ast.FuncDecl{}, primary: map[*ast.FuncDecl]bool{},
		methods: map[string]string{}, plain: map[string]string{}, aliasFields: map[string]bool{}, condFields: map[string]bool{},
		constructor: map[string]bool{}, chanAlias: map[string]map[string]string{}, chanBind: map[string]map[string]string{},
		spawned: map[string]bool{}, valueUsed: map[string]bool{}, nonBlocking: map[*ast.SendStmt]bool{}, inlinedClosures: map[string]bool{}}
	fc.sname = sp.strct
	prefix := ""
	if sp.tag != "" {
		prefix = sp.tag + "/"
		fc.sname = prefix + sp.strct
	}
	fc.savedUnstructured, fc.savedMayLeak = unstructured, mayLeak
	files := []*ast.File{f}
	sibs, _ := filepath.Glob(filepath.Join(repo, filepath.Dir(sp.file), "*.go"))
	sort.Strings(sibs)
	if len(sp.guarded) > 0 || sp.infer { // the other non-test files of the package may touch the fields too
		for _, sib := range sibs {
			base := filepath.Base(sib)
			if strings.HasSuffix(base, "_test.go") || strings.HasPrefix(base, "zz_verif") || base == filepath.Base(sp.file) {
				continue
			}
			sf, err := parser.ParseFile(fset, sib, nil, parser.SkipObjectResolution)
			if err != nil {
				problem("cannot parse %s: %v", sib, err)
				continue
			}
			files = append(files, sf)
		}
	}
	isS := func(t ast.Expr) bool {
		if st, ok := t.(*ast.StarExpr); ok {
			t = st.X
		}
		id, ok := t.(*ast.Ident)
		return ok && id.Name == sp.strct
	}
	found := false
	for fi, file := range files {
		for _, d := range file.Decls {
			gd, ok := d.(*ast.GenDecl)
			if !ok {
				continue
			}
			for _, s := range gd.Specs {
				ts, ok := s.(*ast.TypeSpec)
				if !ok {
					continue
				}
				st, ok := ts.Type.(*ast.StructType)
				if !ok {
					continue
				}
				fc.structs[ts.Name.Name] = true
				for _, fld := range st.Fields.List { // fields through which the struct is reached
					if isS(fld.Type) {
						for _, n := range fld.Names {
							fc.aliasFields[n.Name] = true
						}
					}
				}
				if ts.Name.Name != sp.strct || fi != 0 {
					continue
				}
				found = true
				haveMutex := false
				for _, fld := range st.Fields.List {
					if len(fld.Names) == 0 { // embedded
						if sp.mutex == "" && isSync(fld.Type, "Mutex", "RWMutex") {
							haveMutex = true
							fc.embedded = true
							fc.mutexName = fc.sname + "." + fld.Type.(*ast.SelectorExpr).Sel.Name
						}
						continue
					}
					for _, n := range fld.Names {
						fc.fieldType[n.Name] = fld.Type
						fc.allFields = append(fc.allFields, n.Name)
						if sp.mutex != "" && n.Name == sp.mutex {
							if isSync(fld.Type, "Mutex", "RWMutex") {
								haveMutex = true
								fc.mutexName = fc.sname + "." + n.Name
							}
						}
						t := fld.Type
						if st, ok := t.(*ast.StarExpr); ok {
							t = st.X
						}
						if isSync(t, "Cond") {
							fc.condFields[n.Name] = true
						}
						if _, isFunc := fld.Type.(*ast.FuncType); isFunc {
							fc.cbFields[n.Name] = true
						}
						if _, isChan := fld.Type.(*ast.ChanType); isChan {
							fc.chFields[n.Name] = true
						}
					}
				}
				if !haveMutex && !sp.noMutex {
					problem("%s: struct %s has no mutex %q of type sync.Mutex/RWMutex", sp.file, sp.strct, sp.mutex)
				}
				for _, g := range sp.guarded {
					if fc.fieldType[g] == nil {
						// a DECLARED guarded field the struct no longer has (renamed / re-represented):
						// not a defect of the code.  The declaration is dropped, the struct's discipline
						// is then the INFERRED one (inferGuards), and the stale declaration is reported
						// as a coverage note (stale_declarations).
						fc.stale = append(fc.stale, g)
						continue
					}
					fc.guarded[g] = true
				}
			}
		}
	}
	if !found {
		problem("%s: struct %s not found", sp.file, sp.strct)
		return nil
	}
	for fi, file := range files {
		for _, d := range file.Decls {
			fd, ok := d.(*ast.FuncDecl)
			if !ok || fd.Body == nil {
				continue
			}
			var q string
			if fd.Recv != nil && len(fd.Recv.List) == 1 {
				rt := recvType(fd.Recv.List[0].Type)
				q = prefix + rt + "." + fd.Name.Name
				if rt == sp.strct {
					fc.methods[fd.Name.Name] = q
				}
			} else {
				q = filepath.Base(filepath.Dir(sp.file)) + "." + fd.Name.Name
				if fd.Name.Name == "init" || fd.Name.Name == "main" {
					q += "@" + filepath.Base(fset.Position(fd.Pos()).Filename)
				}
				fc.plain[fd.Name.Name] = q
			}
			fc.funcs[q] = fd
			fc.primary[fd] = fi == 0
			ast.Inspect(fd.Body, func(x ast.Node) bool { // a constructor builds the struct with a composite literal
				if cl, ok := x.(*ast.CompositeLit); ok && cl.Type != nil && isS(cl.Type) {
					fc.constructor[q] = true
				}
				return true
			})
		}
	}
	return fc
}

func recvType(e ast.Expr) string {
	switch t := e.(type) {
	case *ast.StarExpr:
		return recvType(t.X)
	case *ast.Ident:
		return t.Name
	case *ast.IndexExpr:
		return recvType(t.X)
	}
	return "?"
}

func recvName(fd *ast.FuncDecl) string {
	if fd.Recv == nil || len(fd.Recv.List) != 1 || len(fd.Recv.List[0].Names) != 1 {
		return ""
	}
	return fd.Recv.List[0].Names[0].Name
}

// isBase: e denotes a value of the anchored struct: an identifier (not the receiver of a
// method of ANOTHER struct of the package) or <ident>.<field of type *S>
func (fc *fileCtx) isBase(e ast.Expr) bool {
	switch t := e.(type) {
	case *ast.Ident:
		if fc.cur != nil && fc.cur.Recv != nil && recvName(fc.cur) == t.Name {
			rt := recvType(fc.cur.Recv.List[0].Type)
			if rt != fc.spec.strct && fc.structs[rt] {
				return false
			}
		}
		return true
	case *ast.SelectorExpr:
		if _, ok := t.X.(*ast.Ident); ok && fc.aliasFields[t.Sel.Name] {
			return true
		}
	}
	return false
}

// lockOp recognises <base>.Lock() / <base>.<mutex>.Lock() etc. on the struct's mutex
func (fc *fileCtx) lockOp(e ast.Expr) (string, bool) {
	call, ok := e.(*ast.CallExpr)
	if !ok || len(call.Args) != 0 {
		return "", false
	}
	sel, ok := call.Fun.(*ast.SelectorExpr)
	if !ok {
		return "", false
	}
	var op string
	switch sel.Sel.Name {
	case "Lock":
		op = "Acq"
	case "RLock":
		op = "AcqR"
	case "Unlock":
		op = "Rel"
	case "RUnlock":
		op = "RelR"
	default:
		return "", false
	}
	if fc.embedded {
		if !fc.isBase(sel.X) {
			return "", false
		}
		if id, ok := sel.X.(*ast.Ident); ok && fc.cur != nil && !fc.primary[fc.cur] {
			if fc.cur.Recv == nil || recvName(fc.cur) != id.Name || recvType(fc.cur.Recv.List[0].Type) != fc.spec.strct {
				return "", false
			}
		}
		return op, true
	}
	inner, ok := sel.X.(*ast.SelectorExpr)
	if !ok || inner.Sel.Name != fc.spec.mutex || !fc.isBase(inner.X) {
		return "", false
	}
	return op, true
}

// condWait recognises <base>.<cond field>.Wait(): releases and re-acquires the mutex
func (fc *fileCtx) condWait(e ast.Expr) bool {
	call, ok := e.(*ast.CallExpr)
	if !ok || len(call.Args) != 0 {
		return false
	}
	sel, ok := call.Fun.(*ast.SelectorExpr)
	if !ok || sel.Sel.Name != "Wait" {
		return false
	}
	inner, ok := sel.X.(*ast.SelectorExpr)
	return ok && fc.condFields[inner.Sel.Name] && fc.isBase(inner.X)
}

// guardedRoot: e is <base>.<guarded field> possibly under index/slice/paren/star;
// returns the field and whether e is the field itself (depth 0)
func (fc *fileCtx) guardedRoot(e ast.Expr) (field string, direct bool, sel *ast.SelectorExpr) {
	depth := 0
	for {
		switch t := e.(type) {
		case *ast.ParenExpr:
			e = t.X
		case *ast.IndexExpr:
			e = t.X
			depth++
		case *ast.SliceExpr:
			e = t.X
			depth++
		case *ast.StarExpr:
			e = t.X
			depth++
		case *ast.SelectorExpr:
			if fc.guarded[t.Sel.Name] && fc.isBase(t.X) {
				return t.Sel.Name, depth == 0, t
			}
			// a field of an element: a.f[k].x = ...
			e = t.X
			depth++
		default:
			return "", false, nil
		}
	}
}

// walker translates one function (or function literal) into the flat instruction sequence
type walker struct {
	fc    *fileCtx
	fd    *ast.FuncDecl
	name  string
	nlit  int
	typed map[string]bool
}

func (fc *fileCtx) q(f string) string { return fc.sname + "." + f }

func (w *walker) chanField(e ast.Expr) string {
	fc := w.fc
	if s, ok := e.(*ast.SelectorExpr); ok {
		if fc.chFields[s.Sel.Name] && fc.isBase(s.X) {
			return s.Sel.Name
		}
	}
	if id, ok := e.(*ast.Ident); ok { // a parameter every call site binds to a channel field
		if f := fc.chanAlias[w.name][id.Name]; f != "" {
			return f
		}
	}
	return ""
}

// callee resolves a call of a function / method of the analysed package
func (w *walker) callee(fun ast.Expr) string {
	fc := w.fc
	switch t := fun.(type) {
	case *ast.Ident:
		return fc.plain[t.Name]
	case *ast.SelectorExpr:
		if g, ok := fc.methods[t.Sel.Name]; ok && w.typedBase(t.X) {
			return g
		}
		// <ident>.<component field>.<method>: a method of the component (another package)
		if inner, ok := t.X.(*ast.SelectorExpr); ok {
			if _, ok := inner.X.(*ast.Ident); ok {
				if comp := fc.spec.components[inner.Sel.Name]; comp != "" {
					return comp + "." + t.Sel.Name
				}
			}
		}
	}
	return ""
}

// typedBase: e is known (syntactically) to be a value of the anchored struct: the receiver of a
// method of the struct, a parameter or variable declared with the struct's type, a local built
// with a composite literal of it, or <ident>.<field of type *S>
func (w *walker) typedBase(e ast.Expr) bool {
	fc := w.fc
	switch t := e.(type) {
	case *ast.SelectorExpr:
		_, ok := t.X.(*ast.Ident)
		return ok && fc.aliasFields[t.Sel.Name]
	case *ast.Ident:
		if w.typed == nil {
			w.typed = map[string]bool{}
			isS := func(x ast.Expr) bool {
				if st, ok := x.(*ast.StarExpr); ok {
					x = st.X
				}
				if u, ok := x.(*ast.UnaryExpr); ok {
					x = u.X
				}
				if cl, ok := x.(*ast.CompositeLit); ok {
					x = cl.Type
				}
				id, ok := x.(*ast.Ident)
				return ok && id.Name == fc.spec.strct
			}
			if w.fd.Recv != nil && isS(w.fd.Recv.List[0].Type) {
				w.typed[recvName(w.fd)] = true
			}
			if w.fd.Type.Params != nil {
				for _, p := range w.fd.Type.Params.List {
					if isS(p.Type) {
						for _, n := range p.Names {
							w.typed[n.Name] = true
						}
					}
				}
			}
			ast.Inspect(w.fd.Body, func(x ast.Node) bool {
				switch a := x.(type) {
				case *ast.AssignStmt:
					if len(a.Lhs) == len(a.Rhs) {
						for i, r := range a.Rhs {
							if id, ok := a.Lhs[i].(*ast.Ident); ok && isS(r) {
								if _, lit := r.(*ast.Ident); !lit {
									w.typed[id.Name] = true
								}
							}
						}
					}
				case *ast.ValueSpec:
					if a.Type != nil && isS(a.Type) {
						for _, n := range a.Names {
							w.typed[n.Name] = true
						}
					}
				}
				return true
			})
		}
		return w.typed[t.Name]
	}
	return false
}

// closure: a function literal that is not invoked on the spot runs later, possibly on another
// goroutine and without the locks held here: it becomes an entry point of its own
func (w *walker) closure(fl *ast.FuncLit, kind string) {
	w.nlit++
	name := fmt.Sprintf("%s$%s%d", w.name, kind, w.nlit)
	sub := &walker{fc: w.fc, fd: w.fd, name: name, typed: w.typed}
	w.fc.chanAlias[name] = w.fc.chanAlias[w.name]
	ir := sub.funcBody(fl.Body)
	w.nlit += sub.nlit
	if len(ir) > 0 {
		w.fc.anon = append(w.fc.anon, namedIR{name, ir})
	}
}

// expr lists, in source order, the guarded-field accesses, in-package calls, callback calls and
// channel operations of an expression or simple statement (no nested statement lists)
func (w *walker) expr(n ast.Node) []instr {
	if n == nil || (reflect.ValueOf(n).Kind() == reflect.Ptr && reflect.ValueOf(n).IsNil()) {
		return nil
	}
	fc := w.fc
	var out []instr
	skip := map[*ast.SelectorExpr]bool{}
	calleeSel := map[*ast.SelectorExpr]bool{}
	iife := map[*ast.FuncLit]bool{}
	ast.Inspect(n, func(x ast.Node) bool {
		switch t := x.(type) {
		case *ast.FuncLit:
			// invoked on the spot, or handed to a call / stored in a local: assumed to run here, under
			// the locks held here (sort.Slice, CreateOrPatch, ...); only `go func` starts elsewhere
			if !iife[t] {
				fc.inlinedClosures[w.name] = true
			}
			out = append(out, w.funcBody(t.Body)...)
			return false
		case *ast.SendStmt:
			if c := w.chanField(t.Chan); c != "" && !w.fc.nonBlocking[t] {
				out = append(out, instr{"Send", fc.q(c)})
			}
		case *ast.UnaryExpr:
			if t.Op == token.ARROW {
				if c := w.chanField(t.X); c != "" {
					out = append(out, instr{"Recv", fc.q(c)})
				}
			}
		case *ast.AssignStmt:
			for _, lhs := range t.Lhs {
				if f, direct, sel := fc.guardedRoot(lhs); f != "" {
					skip[sel] = true
					if direct && (t.Tok == token.ASSIGN || t.Tok == token.DEFINE) {
						out = append(out, instr{"WrW", fc.q(f)})
					} else {
						out = append(out, instr{"WrE", fc.q(f)})
					}
				}
			}
		case *ast.IncDecStmt:
			if f, _, sel := fc.guardedRoot(t.X); f != "" {
				skip[sel] = true
				out = append(out, instr{"WrE", fc.q(f)})
			}
		case *ast.CallExpr:
			if fl, ok := t.Fun.(*ast.FuncLit); ok {
				iife[fl] = true
			}
			if s, ok := t.Fun.(*ast.SelectorExpr); ok {
				calleeSel[s] = true
			}
			if id, ok := t.Fun.(*ast.Ident); ok && id.Name == "delete" && len(t.Args) == 2 {
				if f, _, sel := fc.guardedRoot(t.Args[0]); f != "" {
					skip[sel] = true
					out = append(out, instr{"WrE", fc.q(f)})
				}
			} else if g := w.callee(t.Fun); g != "" {
				out = append(out, instr{"Call", g})
				w.bindChanArgs(g, t)
			}
			if sel, ok := t.Fun.(*ast.SelectorExpr); ok {
				if fc.cbFields[sel.Sel.Name] && fc.isBase(sel.X) {
					if fc.guarded[sel.Sel.Name] {
						skip[sel] = true
						out = append(out, instr{"Rd", fc.q(sel.Sel.Name)})
					}
					if g := callbackBinding[fc.q(sel.Sel.Name)]; g != "" && bindingOK {
						out = append(out, instr{"Call", g})
					} else {
						out = append(out, instr{"CallCb", sel.Sel.Name})
					}
				}
				// mutating method on (an element of) a guarded container
				if sel.Sel.Name == "Insert" || sel.Sel.Name == "Delete" {
					if f, _, s2 := fc.guardedRoot(sel.X); f != "" {
						skip[s2] = true
						out = append(out, instr{"WrE", fc.q(f)})
					}
				}
			}
		case *ast.SelectorExpr:
			if skip[t] {
				return true
			}
			if fc.guarded[t.Sel.Name] && fc.isBase(t.X) {
				out = append(out, instr{"Rd", fc.q(t.Sel.Name)})
				return true
			}
			// a method of the struct used as a value (callback, goroutine body): an entry point
			if !calleeSel[t] {
				if g, ok := fc.methods[t.Sel.Name]; ok && w.typedBase(t.X) {
					fc.valueUsed[g] = true
				}
			}
		}
		return true
	})
	return out
}

// bindChanArgs records which channel field a call passes for which parameter of g
func (w *walker) bindChanArgs(g string, call *ast.CallExpr) {
	fd := w.fc.funcs[g]
	if fd == nil || fd.Type.Params == nil {
		return
	}
	var params []string
	for _, p := range fd.Type.Params.List {
		for _, n := range p.Names {
			params = append(params, n.Name)
		}
	}
	for i, a := range call.Args {
		if i >= len(params) {
			break
		}
		if c := w.chanField(a); c != "" {
			if w.fc.chanBind[g] == nil {
				w.fc.chanBind[g] = map[string]string{}
			}
			if old, ok := w.fc.chanBind[g][params[i]]; ok && old != c {
				w.fc.chanBind[g][params[i]] = "?" // bound to different fields: no alias
			} else {
				w.fc.chanBind[g][params[i]] = c
			}
		}
	}
}

// funcBody: a function scope — deferred actions run at its end in LIFO order
func (w *walker) funcBody(body *ast.BlockStmt) []instr {
	var defers [][]instr
	ir := w.stmts(body.List, true, &defers)
	for i := len(defers) - 1; i >= 0; i-- {
		ir = append(ir, defers[i]...)
	}
	return ir
}

func hasJump(n ast.Node, from, to token.Pos) bool {
	found := false
	ast.Inspect(n, func(x ast.Node) bool {
		switch t := x.(type) {
		case *ast.ReturnStmt:
			if t.Pos() > from && t.Pos() < to {
				found = true
			}
		case *ast.BranchStmt:
			if t.Tok == token.GOTO && t.Pos() > from && t.Pos() < to {
				found = true
			}
		case *ast.FuncLit:
			return false
		}
		return !found
	})
	return found
}

// stmts translates a statement list.  Lock operations may occur in any list provided the list
// is balanced: what it acquires it releases itself (or, at the top level of a function scope,
// by a defer).  Then the flat sequence over-approximates every path through the function.
func (w *walker) stmts(list []ast.Stmt, top bool, defers *[][]instr) []instr {
	fc := w.fc
	var ir []instr
	var open []token.Pos
	m := fc.mutexName
	for _, st := range list {
		switch s := st.(type) {
		case *ast.ExprStmt:
			if op, ok := fc.lockOp(s.X); ok {
				ir = append(ir, instr{op, m})
				if op == "Acq" || op == "AcqR" {
					open = append(open, s.Pos())
				} else if len(open) > 0 {
					from := open[len(open)-1]
					open = open[:len(open)-1]
					for _, x := range list {
						if hasJump(x, from, s.Pos()) {
							mayLeak = append(mayLeak, w.name)
						}
					}
				} else if !top {
					unstructured = append(unstructured, w.name+": releases in a nested block a lock acquired outside it")
				}
				continue
			}
			if fc.condWait(s.X) {
				ir = append(ir, instr{"Rel", m}, instr{"Acq", m})
				continue
			}
			ir = append(ir, w.expr(s)...)
		case *ast.DeferStmt:
			if op, ok := fc.lockOp(s.Call); ok {
				if !top {
					unstructured = append(unstructured, w.name+": defer of an unlock inside a nested block")
				}
				*defers = append(*defers, []instr{{op, m}})
				if len(open) > 0 {
					open = open[:len(open)-1]
				}
				continue
			}
			if fl, ok := s.Call.Fun.(*ast.FuncLit); ok {
				var args []instr
				for _, a := range s.Call.Args {
					args = append(args, w.expr(a)...)
				}
				ir = append(ir, args...) // arguments are evaluated at the defer statement
				*defers = append(*defers, w.funcBody(fl.Body))
				continue
			}
			*defers = append(*defers, w.expr(s.Call))
		case *ast.GoStmt:
			for _, a := range s.Call.Args {
				ir = append(ir, w.expr(a)...)
			}
			if fl, ok := s.Call.Fun.(*ast.FuncLit); ok {
				w.closure(fl, "go")
			} else if g := w.callee(s.Call.Fun); g != "" {
				fc.spawned[g] = true
				fc.spawnSites[g] = append(fc.spawnSites[g], w.name)
				w.bindChanArgs(g, s.Call)
			}
		case *ast.BlockStmt:
			ir = append(ir, w.stmts(s.List, false, defers)...)
		case *ast.LabeledStmt:
			ir = append(ir, w.stmts([]ast.Stmt{s.Stmt}, top, defers)...)
		case *ast.IfStmt:
			ir = append(ir, w.expr(s.Init)...)
			ir = append(ir, w.expr(s.Cond)...)
			ir = append(ir, w.stmts(s.Body.List, false, defers)...)
			if s.Else != nil {
				ir = append(ir, w.stmts([]ast.Stmt{s.Else}, false, defers)...)
			}
		case *ast.ForStmt:
			ir = append(ir, w.expr(s.Init)...)
			ir = append(ir, w.expr(s.Cond)...)
			ir = append(ir, w.stmts(s.Body.List, false, defers)...)
			ir = append(ir, w.expr(s.Post)...)
		case *ast.RangeStmt:
			if c := w.chanField(s.X); c != "" {
				ir = append(ir, instr{"Recv", fc.q(c)})
			}
			ir = append(ir, w.expr(s.X)...)
			ir = append(ir, w.stmts(s.Body.List, false, defers)...)
		case *ast.SwitchStmt:
			ir = append(ir, w.expr(s.Init)...)
			ir = append(ir, w.expr(s.Tag)...)
			for _, c := range s.Body.List {
				cc := c.(*ast.CaseClause)
				for _, e := range cc.List {
					ir = append(ir, w.expr(e)...)
				}
				ir = append(ir, w.stmts(cc.Body, false, defers)...)
			}
		case *ast.TypeSwitchStmt:
			ir = append(ir, w.expr(s.Init)...)
			ir = append(ir, w.expr(s.Assign)...)
			for _, c := range s.Body.List {
				ir = append(ir, w.stmts(c.(*ast.CaseClause).Body, false, defers)...)
			}
		case *ast.SelectStmt:
			hasDefault := false
			for _, c := range s.Body.List {
				if c.(*ast.CommClause).Comm == nil {
					hasDefault = true
				}
			}
			for _, c := range s.Body.List {
				cc := c.(*ast.CommClause)
				if snd, ok := cc.Comm.(*ast.SendStmt); ok && hasDefault {
					fc.nonBlocking[snd] = true // a send next to a default clause does not block
				}
				ir = append(ir, w.expr(cc.Comm)...)
				ir = append(ir, w.stmts(cc.Body, false, defers)...)
			}
		default:
			ir = append(ir, w.expr(st)...)
		}
	}
	if len(open) > 0 && !top {
		unstructured = append(unstructured, w.name+": a nested block acquires a lock it does not release")
	}
	if !top && fc.marks && len(ir) > 0 {
		ir = append(append([]instr{{"CondB", ""}}, ir...), instr{"CondE", ""})
	}
	return ir
}

func (fc *fileCtx) funcIR(name string, fd *ast.FuncDecl) []instr {
	fc.cur = fd
	w := &walker{fc: fc, fd: fd, name: name}
	return w.funcBody(fd.Body)
}

// ---- escapes: a function returns a guarded slice / map / pointer without copying ----

func (fc *fileCtx) refKind(t ast.Expr) bool {
	switch x := t.(type) {
	case *ast.ArrayType:
		return x.Len == nil
	case *ast.MapType, *ast.StarExpr, *ast.ChanType, *ast.InterfaceType, *ast.FuncType:
		return true
	case *ast.Ident:
		switch x.Name {
		case "string", "bool", "int", "int8", "int16", "int32", "int64", "uint", "uint8", "uint16", "uint32", "uint64", "float32", "float64", "byte", "rune":
			return false
		}
		return !fc.structs[x.Name] // a struct declared in this file is copied by value
	case *ast.IndexExpr: // generic instantiation, e.g. sets.Set[string] (a map)
		return true
	case *ast.SelectorExpr: // a type of another package: unknown representation
		return true
	}
	return true
}

// typeOf the expression e rooted at a guarded field (following index steps)
func (fc *fileCtx) typeOfGuardedExpr(e ast.Expr) ast.Expr {
	switch t := e.(type) {
	case *ast.ParenExpr:
		return fc.typeOfGuardedExpr(t.X)
	case *ast.SelectorExpr:
		if fc.guarded[t.Sel.Name] && fc.isBase(t.X) {
			return fc.fieldType[t.Sel.Name]
		}
	case *ast.IndexExpr:
		switch c := fc.typeOfGuardedExpr(t.X).(type) {
		case *ast.MapType:
			return c.Value
		case *ast.ArrayType:
			return c.Elt
		}
	case *ast.SliceExpr:
		return fc.typeOfGuardedExpr(t.X)
	}
	return nil
}

func (fc *fileCtx) escapesOf(fd *ast.FuncDecl) []string {
	tainted := map[string]string{} // local variable -> guarded field it aliases
	var out []string
	seen := map[string]bool{}
	refOf := func(e ast.Expr) string {
		if id, ok := e.(*ast.Ident); ok {
			return tainted[id.Name]
		}
		f, _, _ := fc.guardedRoot(e)
		if f == "" {
			return ""
		}
		if t := fc.typeOfGuardedExpr(e); t != nil && !fc.refKind(t) {
			return ""
		}
		return f
	}
	ast.Inspect(fd.Body, func(x ast.Node) bool {
		switch t := x.(type) {
		case *ast.AssignStmt:
			if len(t.Rhs) >= 1 {
				for i, lhs := range t.Lhs {
					id, ok := lhs.(*ast.Ident)
					if !ok || id.Name == "_" {
						continue
					}
					var rhs ast.Expr
					if len(t.Rhs) == len(t.Lhs) {
						rhs = t.Rhs[i]
					} else if i == 0 {
						rhs = t.Rhs[0] // v, ok := m[k]
					}
					if rhs == nil {
						continue
					}
					if f := refOf(rhs); f != "" {
						tainted[id.Name] = f
					} else if t.Tok == token.ASSIGN {
						delete(tainted, id.Name)
					}
				}
			}
		case *ast.ReturnStmt:
			for _, r := range t.Results {
				if f := refOf(r); f != "" && !seen[f] {
					seen[f] = true
					out = append(out, f)
				}
			}
		}
		return true
	})
	return out
}

// ---- registration sites ----

func exprString(e ast.Expr) string {
	switch t := e.(type) {
	case *ast.Ident:
		return t.Name
	case *ast.SelectorExpr:
		return exprString(t.X) + "." + t.Sel.Name
	case *ast.FuncLit:
		return "<func literal>"
	case *ast.CallExpr:
		return exprString(t.Fun) + "(...)"
	}
	return fmt.Sprintf("<%T>", e)
}

// registrations: every `Handler: <expr>` of a composite literal of a
// controllers.*Reconciler in internal/k8s/k8s.go
func registrations(repo string) [][2]string {
	_, f := parse(repo, "internal/k8s/k8s.go")
	if f == nil {
		return nil
	}
	var out [][2]string
	ast.Inspect(f, func(x ast.Node) bool {
		cl, ok := x.(*ast.CompositeLit)
		if !ok {
			return true
		}
		sel, ok := cl.Type.(*ast.SelectorExpr)
		if !ok || !strings.HasSuffix(sel.Sel.Name, "Reconciler") {
			return true
		}
		for _, el := range cl.Elts {
			kv, ok := el.(*ast.KeyValueExpr)
			if !ok {
				continue
			}
			if k, ok := kv.Key.(*ast.Ident); ok && k.Name == "Handler" {
				e := exprString(kv.Value)
				// cfg.<X>: the embedded Listener's member X
				if i := strings.LastIndex(e, "."); i >= 0 && !strings.HasSuffix(e, ")") {
					e = e[i+1:]
				}
				out = append(out, [2]string{sel.Sel.Name, e})
			}
		}
		return true
	})
	if len(out) == 0 {
		problem("internal/k8s/k8s.go: no Handler: registration found")
	}
	return out
}

// mainCallbacks: the callbacks installed in k8s.Listener{...} literals of the two programs
func mainCallbacks(repo string) [][2]string {
	var out [][2]string
	for _, prog := range []string{"controller", "speaker"} {
		_, f := parse(repo, prog+"/main.go")
		if f == nil {
			continue
		}
		n := 0
		ast.Inspect(f, func(x ast.Node) bool {
			cl, ok := x.(*ast.CompositeLit)
			if !ok {
				return true
			}
			sel, ok := cl.Type.(*ast.SelectorExpr)
			if !ok || sel.Sel.Name != "Listener" {
				return true
			}
			for _, el := range cl.Elts {
				if kv, ok := el.(*ast.KeyValueExpr); ok {
					if k, ok := kv.Key.(*ast.Ident); ok {
						out = append(out, [2]string{prog, k.Name})
						n++
					}
				}
			}
			return true
		})
		if n == 0 {
			problem("%s/main.go: no k8s.Listener{...} literal with callbacks found", prog)
		}
	}
	return out
}

// receiverFields lists the fields of the receiver a method touches (selectors
// <receiver>.<name> that are not the callee of a call, i.e. not method calls)
func receiverFields(fd *ast.FuncDecl) []string {
	rn := recvName(fd)
	callee := map[*ast.SelectorExpr]bool{}
	seen := map[string]bool{}
	var out []string
	ast.Inspect(fd.Body, func(x ast.Node) bool {
		if c, ok := x.(*ast.CallExpr); ok {
			if s, ok := c.Fun.(*ast.SelectorExpr); ok {
				callee[s] = true
			}
		}
		if s, ok := x.(*ast.SelectorExpr); ok && !callee[s] {
			if id, ok := s.X.(*ast.Ident); ok && id.Name == rn && !seen[s.Sel.Name] {
				seen[s.Sel.Name] = true
				out = append(out, s.Sel.Name)
			}
		}
		return true
	})
	sort.Strings(out)
	return out
}

// fetcherClosures: function literals that end up as a status fetcher (assigned to / stored under a
// name containing "fetch": layer2StatusFetchFunc, layer2StatusFetcher, Layer2StatusFetcher,
// bgpPeersFetcher, PoolCountersFetcher, ...) in the two programs.  They run in the status reconcilers,
// OUTSIDE the Listener mutex, so their bodies count as fetcher bodies: every field or method of the
// program's `controller` struct they touch (state the handlers own under the Listener mutex) is listed.
// (program, name the closure is stored under, controller fields / methods touched)
func fetcherClosures(repo string) []string {
	var out []string
	for _, prog := range []string{"controller", "speaker"} {
		_, f := parse(repo, prog+"/main.go")
		if f == nil {
			continue
		}
		members := map[string]bool{} // fields and methods of `controller`
		for _, d := range f.Decls {
			switch t := d.(type) {
			case *ast.GenDecl:
				for _, sp := range t.Specs {
					if ts, ok := sp.(*ast.TypeSpec); ok && ts.Name.Name == "controller" {
						if st, ok := ts.Type.(*ast.StructType); ok {
							for _, fld := range st.Fields.List {
								for _, n := range fld.Names {
									members[n.Name] = true
								}
							}
						}
					}
				}
			case *ast.FuncDecl:
				if t.Recv != nil && len(t.Recv.List) == 1 && recvType(t.Recv.List[0].Type) == "controller" {
					members[t.Name.Name] = true
				}
			}
		}
		isFetch := func(name string) bool { return strings.Contains(strings.ToLower(name), "fetch") }
		nameOf := func(e ast.Expr) string {
			switch t := e.(type) {
			case *ast.Ident:
				return t.Name
			case *ast.SelectorExpr:
				return t.Sel.Name
			}
			return ""
		}
		record := func(name string, e ast.Expr) {
			lit, ok := e.(*ast.FuncLit)
			if !ok || !isFetch(name) {
				return
			}
			seen := map[string]bool{}
			var touched []string
			ast.Inspect(lit.Body, func(x ast.Node) bool {
				if s, ok := x.(*ast.SelectorExpr); ok {
					if _, isID := s.X.(*ast.Ident); isID && members[s.Sel.Name] && !isFetch(s.Sel.Name) && !seen[s.Sel.Name] {
						seen[s.Sel.Name] = true
						touched = append(touched, s.Sel.Name)
					}
				}
				return true
			})
			sort.Strings(touched)
			out = append(out, fmt.Sprintf("(%q, %q, %s)", prog, name, strList(touched)))
		}
		ast.Inspect(f, func(x ast.Node) bool {
			switch t := x.(type) {
			case *ast.AssignStmt:
				for i, l := range t.Lhs {
					if i < len(t.Rhs) {
						record(nameOf(l), t.Rhs[i])
					}
				}
			case *ast.ValueSpec:
				for i, n := range t.Names {
					if i < len(t.Values) {
						record(n.Name, t.Values[i])
					}
				}
			case *ast.KeyValueExpr:
				record(nameOf(t.Key), t.Value)
			}
			return true
		})
	}
	return out
}

// wiredFetchers: method values (not calls) named like a fetcher method that the two programs
// pass on (PoolCountersFetcher: c.ips.CountersForPool, layer2StatusFetcher = a.GetStatus, ...)
func wiredFetchers(repo string) [][2]string {
	want := map[string]bool{}
	for _, m := range fetcherMethods {
		want[m] = true
	}
	var out [][2]string
	for _, prog := range []string{"controller", "speaker"} {
		_, f := parse(repo, prog+"/main.go")
		if f == nil {
			continue
		}
		callee := map[*ast.SelectorExpr]bool{}
		seen := map[string]bool{}
		ast.Inspect(f, func(x ast.Node) bool {
			if c, ok := x.(*ast.CallExpr); ok {
				if s, ok := c.Fun.(*ast.SelectorExpr); ok {
					callee[s] = true
				}
			}
			if s, ok := x.(*ast.SelectorExpr); ok && !callee[s] && want[s.Sel.Name] && !seen[s.Sel.Name] {
				seen[s.Sel.Name] = true
				out = append(out, [2]string{prog, s.Sel.Name})
			}
			return true
		})
	}
	return out
}

// inlineIR replaces the calls of a sequence by the callees' sequences (bounded depth)
func inlineIR(irs map[string][]instr, name string, depth int) []instr {
	var out []instr
	for _, i := range irs[name] {
		if i.op == "Call" {
			if depth > 0 && i.arg != name {
				out = append(out, inlineIR(irs, i.arg, depth-1)...)
			}
			continue
		}
		out = append(out, i)
	}
	return out
}

func crossCall(g string) bool {
	for _, v := range callbackBinding {
		if v == g {
			return true
		}
	}
	for _, sp := range notifySpecs {
		for _, comp := range sp.components {
			if strings.HasPrefix(g, comp+".") {
				return true
			}
		}
	}
	return false
}

// bindingSites checks the three statements that wire frrk8s' configChangedCallback to
// FRRK8sReconciler.UpdateConfig
func bindingSites(repo string) bool {
	has := func(rel string, pred func(ast.Node) bool) bool {
		_, f := parse(repo, rel)
		if f == nil {
			return false
		}
		found := false
		ast.Inspect(f, func(x ast.Node) bool {
			if x != nil && pred(x) {
				found = true
			}
			return !found
		})
		return found
	}
	selName := func(e ast.Expr) string {
		if s, ok := e.(*ast.SelectorExpr); ok {
			return s.Sel.Name
		}
		return ""
	}
	a := has("internal/k8s/k8s.go", func(x ast.Node) bool {
		as, ok := x.(*ast.AssignStmt)
		return ok && len(as.Lhs) == 1 && len(as.Rhs) == 1 && selName(as.Lhs[0]) == "BGPEventCallback" && selName(as.Rhs[0]) == "UpdateConfig"
	})
	b := has("speaker/main.go", func(x ast.Node) bool {
		c, ok := x.(*ast.CallExpr)
		return ok && selName(c.Fun) == "SetEventCallback" && len(c.Args) == 1 && selName(c.Args[0]) == "BGPEventCallback"
	})
	c := has("internal/bgp/frrk8s/frrk8s.go", func(x ast.Node) bool {
		as, ok := x.(*ast.AssignStmt)
		if !ok || len(as.Lhs) != 1 || len(as.Rhs) != 1 || selName(as.Lhs[0]) != "configChangedCallback" {
			return false
		}
		_, isParam := as.Rhs[0].(*ast.Ident)
		return isParam
	})
	return a && b && c
}

// skeletonOf: which loops a function has and how they are left.  Robust against refactorings
// that keep the loops and their exits (hoisted locals, reordered bookkeeping, merged ifs);
// `continue` turned into `return`, a dropped early return or a new loop change it.
func skeletonOf(fd *ast.FuncDecl) string {
	type loop struct {
		depth          int
		ret, brk, cont bool
		calls          map[string]bool // names called in the body (nested loops included), not in the range / condition
	}
	var loops []*loop
	topReturn := false
	var walk func(n ast.Node, stack []*loop, breakable []bool)
	walk = func(n ast.Node, stack []*loop, breakable []bool) {
		ast.Inspect(n, func(x ast.Node) bool {
			if x == nil || x == n {
				return true
			}
			switch t := x.(type) {
			case *ast.FuncLit:
				return false
			case *ast.ForStmt, *ast.RangeStmt:
				l := &loop{depth: len(stack) + 1, calls: map[string]bool{}}
				loops = append(loops, l)
				var body *ast.BlockStmt
				if f, ok := t.(*ast.ForStmt); ok {
					body = f.Body
				} else {
					body = t.(*ast.RangeStmt).Body
				}
				walk(body, append(append([]*loop{}, stack...), l), append(append([]bool{}, breakable...), true))
				return false
			case *ast.SwitchStmt, *ast.TypeSwitchStmt, *ast.SelectStmt:
				var body *ast.BlockStmt
				switch u := t.(type) {
				case *ast.SwitchStmt:
					body = u.Body
				case *ast.TypeSwitchStmt:
					body = u.Body
				case *ast.SelectStmt:
					body = u.Body
				}
				walk(body, stack, append(append([]bool{}, breakable...), false))
				return false
			case *ast.CallExpr:
				name := ""
				switch f := t.Fun.(type) {
				case *ast.Ident:
					name = f.Name
				case *ast.SelectorExpr:
					name = f.Sel.Name
				}
				if name != "" {
					for _, l := range stack {
						l.calls[name] = true
					}
				}
			case *ast.ReturnStmt:
				if len(stack) == 0 {
					topReturn = true
				}
				for _, l := range stack {
					l.ret = true
				}
			case *ast.BranchStmt:
				if len(stack) == 0 {
					return true
				}
				switch t.Tok {
				case token.CONTINUE:
					stack[len(stack)-1].cont = true
				case token.BREAK:
					if t.Label != nil || (len(breakable) > 0 && breakable[len(breakable)-1]) {
						stack[len(stack)-1].brk = true
					}
				case token.GOTO:
					stack[len(stack)-1].brk = true
				}
			}
			return true
		})
	}
	walk(fd.Body, nil, nil)
	var items []string
	for _, l := range loops {
		var cs []string
		for c := range l.calls {
			cs = append(cs, c)
		}
		sort.Strings(cs)
		items = append(items, fmt.Sprintf("(%d, %v, %v, %v, %s)", l.depth, l.ret, l.brk, l.cont, strList(cs)))
	}
	return fmt.Sprintf("(%v, [%s])", topReturn, strings.Join(items, "; "))
}

func irString(ir []instr) string {
	var items []string
	for _, in := range ir {
		if in.op == "CondB" || in.op == "CondE" {
			items = append(items, in.op)
		} else {
			items = append(items, fmt.Sprintf("%s %q", in.op, in.arg))
		}
	}
	return strings.Join(items, "; ")
}
