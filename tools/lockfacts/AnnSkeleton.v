(* copied to .work/C13 on every run: structural tie of the hand-written transcription
   (Model/Announcer.v, Model/AnnouncerExt.v) to the code: per transcribed method the MULTISET of its
   loops, the way they are left (return / break / continue) and the calls the model gives them are
   still what the model was transcribed from (Model/AnnouncerSkel.v says what is and what is not
   compared).  When it fails while the behavioural correspondence of the same run passes completely,
   props/C13.py reports the stale transcription as a coverage note, not as a violation. *)
From Coq Require Import List String.
From Verif Require Import Model.AnnouncerSkel.
From C13gen Require Import LockFacts.
Import ListNotations.
Local Open Scope string_scope.

Definition D_skeleton_diffs := Eval vm_compute in skeleton_diffs skeletons.
Print D_skeleton_diffs.
Theorem announcer_skeleton_matches : skeletons_match skeletons = true.
Proof. vm_compute. reflexivity. Qed.
Print Assumptions announcer_skeleton_matches.
