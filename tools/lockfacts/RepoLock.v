(* copied to .work/C20 on every run: the proof obligations about the lock facts
   GENERATED from the Go sources of this run.  A code change that drops a lock,
   registers a raw callback, or hands out a mutable guarded slice makes one of
   the vm_compute proofs below fail. *)
From Coq Require Import List String.
From Verif Require Import Model.Lock Proofs.LockP.
From C20gen Require Import LockFacts.
Import ListNotations.
Local Open Scope string_scope.

(* the translator's structural side conditions: every statement list is balanced (what it locks
   it unlocks itself, or a top-level defer does), no early return between Lock and a non-deferred
   Unlock, the anchored structs / mutexes / declared fields exist *)
Theorem repo_facts_wellformed : unstructured = [] /\ may_leak = [] /\ spec_problems = [].
Proof. vm_compute. repeat split. Qed.

(* every access to a guarded field (declared or inferred guard map) on every call path from an
   entry point holds the guarding mutex — writes exclusively; every path returns lock-free *)
Theorem repo_well_locked : well_locked_from guards owners funcs entries = true.
Proof. vm_compute. reflexivity. Qed.

(* the declared guard map is re-derived by the inference rule on this tree (a sanity check of the rule) *)
Theorem repo_declared_guards_inferred :
  forallb (fun d => existsb (fun f => String.eqb (fst d) (snd f)) inferable) guards_declared = true.
Proof. vm_compute. reflexivity. Qed.

(* no mutex is acquired (in any mode) on a call path on which it is already held:
   C20_recursive_rlock_deadlocks *)
Theorem repo_no_recursive_lock : no_recursive_lock funcs = true.
Proof. vm_compute. reflexivity. Qed.

Theorem repo_wrappers_registered :
  wrappers_ok funcs registered main_callbacks listener_callbacks = true.
Proof. vm_compute. reflexivity. Qed.

Theorem repo_no_escape : no_escape funcs escapes = true.
Proof. vm_compute. reflexivity. Qed.

(* deadlock freedom as far as it is syntactic: the (held, acquired) pairs over all call paths
   form an acyclic order, and no callback whose target is unknown runs under a mutex other than
   the Listener's *)
Theorem repo_lock_order_acyclic : lock_order_ok funcs = true.
Proof. vm_compute. reflexivity. Qed.

(* no blocking channel send while holding a mutex that the channel's consumer acquires (nor under a
   mutex on a channel without a translated consumer): Announce.SetBalancer queues on spamCh only
   after Unlock — defers run LIFO — because spamLoop needs RLock in gratuitous
   (C20_send_under_lock_deadlocks / C20_send_after_unlock_progress) *)
Theorem repo_no_blocking_send_under_lock : no_blocking_send_under_lock funcs = true.
Proof. vm_compute. reflexivity. Qed.

(* a handler notifies the independent status reconciler only AFTER the state the reconciler's fetcher
   reads is in place: per function of the notifying struct, calls inlined, the last callback comes
   after the last write of the fetched fields, is not made conditional when that write is
   unconditional, and a handler that writes them notifies at all (C20_notify_after_state;
   Allocator.countersChangedCallback / poolToCounters, layer2Controller.onStatusChange /
   Announce.ips; order only for bgpController.adsChangedCallback / the guarded field PeersForService reads (activeAds), which is invoked per
   changed service from a loop) *)
Theorem repo_notify_after_state : notify_after_state nfuncs nentries notifiers = true.
Proof. vm_compute. reflexivity. Qed.

(* every Listener method that takes the Listener mutex gives it back by a DEFERRED unlock, and every
   registered handler is such a method: a handler that panics (controller-runtime recovers the
   reconcile) does not leave the mutex held (C20_deferred_unlock_survives_panics /
   C20_plain_unlock_blocks_after_panic) *)
Theorem repo_wrappers_unlock_deferred : wrappers_unlock_deferred registered wrapper_unlocks = true.
Proof. vm_compute. reflexivity. Qed.

(* the status fetchers, which run outside the Listener mutex, touch only guarded fields of
   their receiver, a function literal used as fetcher touches nothing of the program's controller
   struct (state owned by the handlers under the Listener mutex), and they are the functions the
   programs hand to the status reconcilers *)
Theorem repo_fetchers_confined :
  confined guards fetchers = true /\
  fetcher_closures_confined fetcher_closures = true /\
  forallb (fun w => existsb (fun x => String.eqb (fst (fst x)) (snd (fst x) ++ "." ++ snd w)) fetchers) fetchers_wired = true /\
  List.length fetchers = 3.
Proof. vm_compute. repeat split. Qed.

(* hence: no interleaving of the translated functions reaches a state with two
   goroutines at conflicting accesses to poolToCounters / activeAds / the Announce fields *)
Theorem repo_race_free : forall bodies c0 c,
  inline_entries fuel0 funcs entries = Some bodies -> idle c0 -> steps bodies c0 c -> ~ racy guards c.
Proof. intros bodies c0 c. apply (lockset_sound_from guards owners funcs entries). exact repo_well_locked. Qed.

Print Assumptions repo_facts_wellformed.
Print Assumptions repo_well_locked.
Print Assumptions repo_wrappers_registered.
Print Assumptions repo_no_escape.
Print Assumptions repo_race_free.
Print Assumptions repo_lock_order_acyclic.
Print Assumptions repo_no_recursive_lock.
Print Assumptions repo_declared_guards_inferred.
Print Assumptions repo_fetchers_confined.
Print Assumptions repo_wrappers_unlock_deferred.
Print Assumptions repo_no_blocking_send_under_lock.
Print Assumptions repo_notify_after_state.
