(* copied to .work/C20 on every run: evaluates the obligations on the GENERATED
   facts and prints the verdicts / diagnostics that props/C20.py reports *)
From Coq Require Import List String.
From Verif Require Import Model.Lock.
From C20gen Require Import LockFacts.
Import ListNotations.
Definition prod_eq_dec (a b : string * string) : {a = b} + {a <> b}.
Proof. decide equality; apply string_dec. Defined.
Local Open Scope string_scope.

Definition D_wellformed := Eval vm_compute in
  match unstructured, may_leak, spec_problems with [], [], [] => true | _, _, _ => false end.
Print D_wellformed.
Definition D_unstructured := Eval vm_compute in unstructured. Print D_unstructured.
Definition D_may_leak := Eval vm_compute in may_leak. Print D_may_leak.
Definition D_spec_problems := Eval vm_compute in spec_problems. Print D_spec_problems.
Definition D_well_locked := Eval vm_compute in well_locked_from guards owners funcs entries. Print D_well_locked.
Definition D_diagnose := Eval vm_compute in diagnose_from guards owners funcs entries. Print D_diagnose.
Definition D_wrappers := Eval vm_compute in wrappers_ok funcs registered main_callbacks listener_callbacks.
Print D_wrappers.
Definition D_bad_registrations := Eval vm_compute in
  filter (fun r => match handler_callback funcs (snd r) with Some c => negb (mem c listener_callbacks) | None => true end) registered.
Print D_bad_registrations.
Definition D_unwrapped_callbacks := Eval vm_compute in
  filter (fun mc => negb (existsb (fun r => match handler_callback funcs (snd r) with
                                            | Some c => String.eqb c (snd mc) | None => false end) registered)) main_callbacks.
Print D_unwrapped_callbacks.
Definition D_no_escape := Eval vm_compute in no_escape funcs escapes. Print D_no_escape.
Definition D_escaping := Eval vm_compute in filter (fun e => elem_written funcs (snd e)) escapes.
Print D_escaping.
Definition D_lock_order := Eval vm_compute in lock_order_ok funcs. Print D_lock_order.
Definition D_lock_edges := Eval vm_compute in lock_edges funcs. Print D_lock_edges.
Definition D_cb_under_lock := Eval vm_compute in
  map fst (filter (fun p => match inline fuel0 funcs (snd p) with Some c => negb (cb_ok [] c) | None => true end) funcs).
Print D_cb_under_lock.
Definition D_no_recursive := Eval vm_compute in no_recursive_lock funcs. Print D_no_recursive.
Definition D_reacquirers := Eval vm_compute in reacquirers funcs. Print D_reacquirers.
Definition D_declared_inferred := Eval vm_compute in
  forallb (fun d => existsb (fun f => String.eqb (fst d) (snd f)) inferable) guards_declared.
Print D_declared_inferred.
Definition D_stale_declarations := Eval vm_compute in stale_declarations. Print D_stale_declarations.
Definition D_guards := Eval vm_compute in (List.length guards_declared, List.length guards_inferred, List.length entries).
Print D_guards.
Definition D_confined := Eval vm_compute in confined guards fetchers. Print D_confined.
Definition D_closures_confined := Eval vm_compute in fetcher_closures_confined fetcher_closures. Print D_closures_confined.
Definition D_bad_closures := Eval vm_compute in
  filter (fun x : string * string * list string => match snd x with [] => false | _ => true end) fetcher_closures.
Print D_bad_closures.
Definition D_unlock_deferred := Eval vm_compute in wrappers_unlock_deferred registered wrapper_unlocks. Print D_unlock_deferred.
Definition D_wrapper_unlocks := Eval vm_compute in wrapper_unlocks. Print D_wrapper_unlocks.
Definition D_unconfined := Eval vm_compute in
  map (fun x => fst (fst x)) (filter (fun x => negb (confined guards [x])) fetchers).
Print D_unconfined.
Definition D_wired := Eval vm_compute in
  (forallb (fun x => existsb (fun w => String.eqb (fst (fst x)) (snd (fst x) ++ "." ++ snd w)) fetchers_wired) fetchers
   && forallb (fun w => existsb (fun x => String.eqb (fst (fst x)) (snd (fst x) ++ "." ++ snd w)) fetchers) fetchers_wired
   && Nat.eqb (List.length fetchers) 3).
Print D_wired.
Definition D_send := Eval vm_compute in no_blocking_send_under_lock funcs. Print D_send.
Definition D_blocking_senders := Eval vm_compute in blocking_senders funcs. Print D_blocking_senders.
Definition D_notify := Eval vm_compute in notify_after_state nfuncs nentries notifiers. Print D_notify.
Definition D_notify_violations := Eval vm_compute in notify_violations nfuncs nentries notifiers. Print D_notify_violations.
Definition D_counts := Eval vm_compute in
  (List.length funcs, List.length guards, List.length registered, List.length main_callbacks, List.length escapes,
   fold_right (fun p n => n + List.length (snd p)) 0 funcs).
Print D_counts.
