(* copied to .work/C13 on every run: C13_rw_atomic assumes that every announcer method is ONE
   critical section of Announce.RWMutex.  Checked here on the lock facts regenerated from
   internal/layer2/announcer.go: each method is Lock/RLock; guarded accesses only; Unlock/RUnlock
   (readers contain no write). *)
From Coq Require Import List String.
From Verif Require Import Model.Lock.
From C13gen Require Import LockFacts.
Import ListNotations.
Local Open Scope string_scope.

Definition announcer_methods : list string :=
  ["Announce.SetBalancer"; "Announce.DeleteBalancer"; "Announce.shouldAnnounce";
   "Announce.gratuitous"; "Announce.AnnounceName"].

Definition D_bad := Eval vm_compute in
  filter (fun f => negb (sections_ok funcs "Announce.RWMutex" [f])) announcer_methods.
Print D_bad.

Theorem announcer_methods_are_critical_sections :
  sections_ok funcs "Announce.RWMutex" announcer_methods = true.
Proof. vm_compute. reflexivity. Qed.
Print Assumptions announcer_methods_are_critical_sections.
