#!/usr/bin/env python3
"""Confirm a seeded change delivered by an independent sub-agent and run the checks against it.

usage: tools/seedcheck.py <out_dir> <name> [--checks C05,C09]
  out_dir: directory with patch.diff, meta.json and the demonstration file
  name:    directory name under /verif/seeded/ to keep it in (e.g. C05-1)

Steps (all in scratch worktrees under /tmp, removed afterwards; /repo is never touched):
  1. worktree A = /repo HEAD + patch: `go build ./...`, tests of the touched packages, demo must FAIL
  2. worktree B = /repo HEAD: demo must PASS
  3. VERIF_REPO=A ./check <property> (and any extra checks): record verdict lines
"""
import json, os, re, shutil, subprocess, sys, time

V = os.path.dirname(os.path.dirname(os.path.abspath(__file__)))
ENV = dict(os.environ, GOWORK="off", GOFLAGS="-mod=mod", GOPROXY="off")
for k in ("GOTOOLCHAIN", "GOSUMDB"):
    ENV.pop(k, None)
SKIP = {"internal/k8s/controllers": "-skip TestManager"}


def sh(cmd, cwd=None, env=None, timeout=1800):
    p = subprocess.run(cmd, cwd=cwd, env=env or ENV, shell=True, stdout=subprocess.PIPE, stderr=subprocess.STDOUT, text=True, timeout=timeout)
    return p.returncode, p.stdout


def overlay_for(out_dir, prop, d, name, tag):
    """the agent's overlay (a Docker-less TestMain for internal/bgp/frr): re-target its absolute paths to worktree d"""
    ovsrc = os.path.join(out_dir, "overlay.json")
    if not os.path.exists(ovsrc):
        return ""
    txt = re.sub(r'/tmp/seed\d*-%s-out' % prop, "@@OUT@@", open(ovsrc).read())
    txt = re.sub(r'/tmp/seed\d*-%s' % prop, d, txt)
    txt = txt.replace("@@OUT@@/%s" % os.path.basename(out_dir.rstrip("/")), out_dir.rstrip("/"))
    txt = txt.replace("@@OUT@@", os.path.dirname(out_dir.rstrip("/")))
    ovp = os.path.join("/tmp", "sv-overlay-%s-%s.json" % (name, tag))
    open(ovp, "w").write(txt)
    return "-overlay %s" % ovp


def main():
    out_dir, name = sys.argv[1], sys.argv[2]
    fast = "--fast" in sys.argv      # regression mode: patch + build + checks only (demo/tests were confirmed before)
    extra = []
    if "--checks" in sys.argv:
        extra = sys.argv[sys.argv.index("--checks") + 1].split(",")
    meta = json.load(open(os.path.join(out_dir, "meta.json")))
    prop = meta["property"]
    demo = meta.get("demo_file", "zz_demo_test.go")
    demo_pkg = meta.get("demo_pkg_dir", "").strip("./") or "."
    demo_run = meta.get("demo_run", "")
    patch = os.path.join(out_dir, "patch.diff")
    res = {"property": prop, "confirmed_at": time.strftime("%Y-%m-%d %H:%M:%S")}
    A, B = "/tmp/sv-%s-A" % name, "/tmp/sv-%s-B" % name
    for d in (A, B):
        sh("git -C /repo worktree remove --force %s" % d)
        rc, o = sh("git -C /repo worktree add -q %s HEAD" % d)
        assert rc == 0, o
    try:
        rc, o = sh("git apply %s" % patch, cwd=A)
        res["patch_applies"] = rc == 0
        if rc != 0:
            res["error"] = o[-2000:]
            return finish(res, out_dir, name, meta)
        touched = sorted({os.path.dirname(f) for f in re.findall(r'^\+\+\+ b/(\S+)', open(patch).read(), re.M)})
        res["touched_packages"] = touched
        rc, o = sh("go build ./...", cwd=A)
        res["builds"] = rc == 0
        tests_ok = True
        res["package_tests"] = {}
        for pkg in ([] if fast else touched):
            ov = ""
            if pkg.startswith("internal/bgp/frr") and not pkg.startswith("internal/bgp/frrk8s"):
                ov = overlay_for(out_dir, prop, A, name, "pkg")
                if not ov or pkg != "internal/bgp/frr":
                    res["package_tests"][pkg] = "skipped (needs Docker on the untouched tree too)"
                    if pkg != "internal/bgp/frr" and ov:   # a template change: the golden tests of the parent package
                        rc, o = sh("go test -vet=off -count=1 %s ./internal/bgp/frr/" % ov, cwd=A)
                        res["package_tests"]["internal/bgp/frr"] = "ok (Docker-less TestMain overlay)" if rc == 0 else "FAIL: " + o[-800:]
                        tests_ok = tests_ok and rc == 0
                    continue
            rc, o = sh("go test -vet=off -count=1 %s %s ./%s/" % (SKIP.get(pkg, ""), ov, pkg), cwd=A)
            res["package_tests"][pkg] = "ok" if rc == 0 else "FAIL: " + o[-800:]
            tests_ok = tests_ok and rc == 0
        res["existing_tests_pass_with_change"] = tests_ok
        # demo in both trees
        runname = re.search(r'-run\s+(\S+)', demo_run)
        runflag = "-run '%s'" % runname.group(1).strip("'\"") if runname else ""
        race = "-race" if "-race" in demo_run else ""
        for tag, d in (() if fast else (("with_change", A), ("without_change", B))):
            src = os.path.join(out_dir, demo)
            if os.path.exists(src) and demo.endswith("_test.go"):
                os.makedirs(os.path.join(d, demo_pkg), exist_ok=True)
                shutil.copy(src, os.path.join(d, demo_pkg, os.path.basename(demo)))
                ov = overlay_for(out_dir, prop, d, name, tag) if "-overlay" in demo_run else ""
                rc, o = sh("go test -vet=off -count=1 %s %s %s ./%s/" % (race, ov, runflag, demo_pkg), cwd=d, timeout=900)
            else:  # a program: run the command the agent gave, inside the worktree
                cmd = demo_run.replace("/tmp/seed-%s" % prop, d)
                cmd = re.sub(r"/tmp/seed\d+-%s(?!-out)" % prop, d, cmd)
                rc, o = sh(cmd, cwd=d)
            res["demo_" + tag] = "pass" if rc == 0 else "fail"
            res["demo_%s_tail" % tag] = o[-600:]
            if os.path.exists(os.path.join(d, demo_pkg, os.path.basename(demo))) and demo.endswith("_test.go"):
                os.remove(os.path.join(d, demo_pkg, os.path.basename(demo)))
                try:
                    os.rmdir(os.path.join(d, demo_pkg))   # a directory created only for the demo
                except OSError:
                    pass
        res["confirmed"] = bool(res["builds"] and tests_ok and res.get("demo_with_change") == "fail" and res.get("demo_without_change") == "pass")
        if fast:
            prev = meta.get("coordinator_confirmation", {})
            for k in ("existing_tests_pass_with_change", "demo_with_change", "demo_without_change", "package_tests", "demo_with_change_tail", "demo_without_change_tail"):
                if k in prev:
                    res[k] = prev[k]
            res["confirmed"] = bool(prev.get("confirmed")) and res["builds"]
            res["regression_run"] = True
        # our checks against the changed tree
        res["checks"] = {}
        for c in [prop] + [x for x in extra if x != prop]:
            t0 = time.time()
            rc, o = sh("./check %s --tier quick" % c, cwd=V, env=dict(os.environ, VERIF_REPO=A), timeout=3600)
            lines = [l for l in o.splitlines() if l.startswith(("VIOLATION", "KNOWN-FINDING", "OK ", "BROKEN"))]
            what = [l.strip() for l in o.splitlines() if l.strip().startswith(("what:", "broken "))]
            res["checks"][c] = {"exit": rc, "lines": [l[:300] for l in lines], "what": [w[:300] for w in what[:6]], "wall_s": round(time.time() - t0, 1)}
        res["detected_by"] = [c for c, r in res["checks"].items() if r["exit"] == 1]
    finally:
        for d in (A, B):
            sh("git -C /repo worktree remove --force %s" % d)
    return finish(res, out_dir, name, meta)


def finish(res, out_dir, name, meta):
    dest = os.path.join(V, "seeded", name)
    os.makedirs(dest, exist_ok=True)
    for f in os.listdir(out_dir):
        if os.path.isfile(os.path.join(out_dir, f)):
            shutil.copy(os.path.join(out_dir, f), os.path.join(dest, f))
    meta = dict(meta)
    meta["breaks_property"] = res["property"]
    meta["coordinator_confirmation"] = res
    json.dump(meta, open(os.path.join(dest, "meta.json"), "w"), indent=1)
    print(json.dumps({k: res.get(k) for k in ("property", "confirmed", "builds", "existing_tests_pass_with_change", "demo_with_change",
                                               "demo_without_change", "detected_by")}, indent=0))
    for c, r in res.get("checks", {}).items():
        print(c, "exit", r["exit"], r["wall_s"], "s")
        for l in r["lines"][:6] + r["what"][:4]:
            print("   ", l[:220])


if __name__ == "__main__":
    main()
