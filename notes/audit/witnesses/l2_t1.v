From Coq Require Import List NArith ZArith Bool Lia.
From Verif Require Import Model.Elect Proofs.ElectP Properties.C04 Properties.C12.
Import ListNotations.
Local Open Scope N_scope.

(* ties: the winner depends on listing order; two nodes that iterate their maps
   in different orders both elect themselves *)
Example tie_order_dependent :
  let h := fun _ : N => 0 in
  argmin h [1;2] = Some 1 /\ argmin h [2;1] = Some 2.
Proof. vm_compute. split; reflexivity. Qed.

(* a decide with a per-node listing order (what Go does: each speaker ranges over its own map) *)
Definition decide_ord (h : N -> N) (v : view) (ord : N -> list N) (me : N) : bool :=
  active_ep_exists v && pool_matches v me &&
  match argmin h (ord me) with Some w => N.eqb w me | None => false end.

Example exactly_one_fails_with_ties :
  let h := fun _ : N => 0 in
  let ord := fun me : N => if N.eqb me 1 then [1;2] else [2;1] in
  (forall me n, In n (ord me) <-> In n (available f8_view)) /\
  decide_ord h f8_view ord 1 = true /\ decide_ord h f8_view ord 2 = true.
Proof.
  cbv zeta. split.
  - intros me n. assert (available f8_view = [1;2]) as -> by (vm_compute; reflexivity).
    destruct (N.eqb me 1); cbn; tauto.
  - vm_compute. split; reflexivity.
Qed.

(* with inj_on the per-node order is harmless: follows from C12_order_independent *)
Lemma decide_ord_eq h v ord me :
  inj_on h (available v) -> (forall n, In n (available v) <-> In n (ord me)) ->
  decide_ord h v ord me = decide h v me.
Proof.
  intros Hi He. unfold decide_ord, decide.
  rewrite <- (C12_order_independent h (available v) (ord me) Hi He). reflexivity.
Qed.

(* view-level monotonicity corollary (not stated in C12.v) *)
Lemma view_remove_nonowner h v v' w :
  inj_on h (available v') ->
  (forall n, eligible v' n -> eligible v n) -> eligible v' w ->
  decide h v w = true -> decide h v' w = true.
Proof.
  intros Hi Hsub Hw Hd.
  apply winner_eligible in Hd as He.
  apply (C04_decide_spec h v' w Hi). split; [exact Hw|].
  intros m Hm. apply decide_true_iff in Hd. destruct Hd as [_ Hd].
  eapply argmin_min; [exact Hd|]. apply Hsub in Hm. apply eligible_iff in Hm. tauto.
Qed.
Print Assumptions C04_exactly_one.
