From Coq Require Import List NArith.
From Verif Require Import Model.Cfg Model.CfgFull Proofs.CfgRouteP Proofs.CfgP Proofs.CfgAggP.
Import ListNotations.
Local Open Scope N_scope.

Definition mkpool n a : pool_cr := {| pl_name := n; pl_labels := []; pl_addrs := [a]; pl_avoid := false; pl_auto := true; pl_alloc := None |}.
Definition mkadv n lp pools : bgp_cr := {| bg_name := n; bg_agg4 := 30; bg_agg6 := 128; bg_lp := lp; bg_comms := []; bg_peers := []; bg_pools := pools; bg_psels := []; bg_nsels := [] |}.
Definition node1 : node_cr := {| nd_name := 1; nd_labels := []; nd_ips := [V4 1000] |}.
Definition R : resources := {| r_pools := [mkpool 1 (ARange (V4 10) (V4 15)); mkpool 2 (ARange (V4 4) (V4 9))];
  r_l2 := []; r_bgp := [mkadv 1 100 [1]; mkadv 2 200 [2]]; r_nodes := [node1]; r_nss := []; r_peers := []; r_bfds := []; r_comms := [] |}.
Definition out := pools_for (fun l => l) R.
Compute (match out with Some o => map (fun p => (p_name p, p_cidrs p, map (fun b => (ba_name b, ba_lp b, ba_nodes b, ba_peers b, route b (V4 (if p_name p =? 1 then 10 else 8)))) (p_bgp p))) (po_pools o) | None => [] end).
