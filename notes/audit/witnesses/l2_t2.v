From Coq Require Import List NArith ZArith Bool Lia.
From Verif Require Import Model.Net Model.Announcer Proofs.AnnouncerP Proofs.AnnouncerNdpP Proofs.AnnouncerTop
  Model.AnnouncerExt Proofs.AnnouncerExtP Properties.C13.
Import ListNotations.
Local Open Scope Z_scope.

(* 1. the conclusion of C13_x_withdraw_last does not see a re-sent packet:
   any log that only repeats packets already in [sent x] satisfies it *)
Lemma in_conclusion_blind (l : list ((bool * N) * ip)) i :
  forall y, In y (l ++ l) -> snd y = i -> In y l.
Proof. intros y H _. apply in_app_or in H. tauto. Qed.

(* 2. the stronger, multiplicity-aware statement holds in the model *)
Lemma sent_step_app x e : exists new, sent (xstep x e) = (sent x ++ new)%list /\
  (inv (base x) -> forall y, In y new -> exists svc b, holds (base x) svc b /\ a_ip b = snd y).
Proof.
  destruct e as [name a|name| |ex|ar nd|q]; cbn [xstep sent]; try (exists []; rewrite app_nil_r; split; [reflexivity|intros _ y []]).
  - destruct (queue x) as [|a q]; [exists []; rewrite app_nil_r; split; [reflexivity|intros _ y []]|]. cbn [sent].
    destruct (spam_known (a_ip a) (spam x)); [exists []; rewrite app_nil_r; split; [reflexivity|intros _ y []]|].
    eexists. split; [reflexivity|]. intros I y Hy. destruct (send_in _ _ _ I Hy) as [_ [A _]]. exact A.
  - eexists. split; [reflexivity|]. intros I y Hy. apply in_flat_map in Hy. destruct Hy as [en [_ Hy]].
    destruct (send_in _ _ _ I Hy) as [_ [A _]]. exact A.
Qed.

Lemma x_silent_strong i evs : forall x, inv (base x) -> (forall svc b, holds (base x) svc b -> a_ip b <> i) ->
  Forall (not_set_of i) evs ->
  exists new, sent (xrun evs x) = (sent x ++ new)%list /\ forall y, In y new -> snd y <> i.
Proof.
  induction evs as [|e evs IH]; intros x I NH F.
  - exists []. rewrite app_nil_r. split; [reflexivity|intros y []].
  - inversion F; subst. cbn [xrun fold_left].
    destruct (sent_step_app x e) as [n1 [E1 P1]].
    destruct (IH (xstep x e)) as [n2 [E2 P2]]; [apply xinv_step; exact I|apply no_holder_step; assumption|assumption|].
    exists (n1 ++ n2)%list. split.
    + unfold xrun in E2. rewrite E2, E1, app_assoc. reflexivity.
    + intros y Hy. apply in_app_or in Hy. destruct Hy as [Hy|Hy]; [|apply P2; exact Hy].
      destruct (P1 I y Hy) as [svc [b [Hh Eb]]]. intros E. apply (NH svc b Hh). congruence.
Qed.

(* 3. a run in which the weak conclusion is satisfied although everything for i had been sent before:
   shows the typical shape (sent x already contains the packets) *)
Example typical :
  let a := mk_adv (V4 1) true [] in
  let x := xrun [XSet 1 a; XRecv] (xinit [1%N] []) in
  sent x = [((true, 1%N), V4 1)].
Proof. vm_compute. reflexivity. Qed.
