From Coq Require Import List NArith Bool.
From Verif Require Import Model.Net Model.Alloc Model.Ctrl Proofs.AllocP Proofs.AllocPolicyP Proofs.CtrlP Proofs.CtrlWorldP Proofs.CtrlThmP Proofs.CtrlStarveP Proofs.CtrlRestartP Proofs.CtrlStableP.
From Verif Require Import Properties.C03 Properties.C06 Properties.C07.
Import ListNotations.
Local Open Scope N_scope.

(* 1. stuck world with overlapping pools: pool A pinned to ns 9 (incompatible), pool B unpinned, same CIDR *)
Definition pA : pool := {| p_name := 1; p_cidrs := [ {| pfam := F4; pbase := 167772160; plen := 30 |} ]; p_avoid := false; p_auto := true;
   p_pin := Some {| prio := 0; nss := [9]; sels := [] |} |}.
Definition pB : pool := {| p_name := 2; p_cidrs := [ {| pfam := F4; pbase := 167772160; plen := 30 |} ]; p_avoid := false; p_auto := true; p_pin := None |}.
Definition psAB : pools := {| by_name := [pA; pB]; by_ns := []; by_sel := [] |}.
Definition pre : list ev := [EPools psAB; UPut 2 (sobj 80); EReload [2] [sk None]].
Compute (match wrun srank pre world0 with Some _ => true | None => false end).
Definition pre2 : list ev := [EPools psAB; UPut 2 (sobj 80); EReload [2] [sk (Some (2, [s4a]))]].
Compute (match wrun srank pre2 world0 with Some _ => true | None => false end).
Definition pre3 : list ev := [EPools psAB; UPut 2 (sobj 80); EReload [2] [sk (Some (1, [s4a]))]].
Compute (match wrun srank pre3 world0 with Some _ => true | None => false end).

(* 2. C06 example completed: crash + pools + reload actually runs *)
Definition full := yevs_ok ++ [ECrash; EPools ypools; ESvc 1 (kk None); EReload [2;1] [kk None; kk None]].
Compute (match wrun yrank full world0 with Some w => Some (w_api w, w_gate w, w_reload w, w_queue w) | None => None end).

(* 3. failed write then crash (crash between choosing and persisting) *)
Definition kf (c : option (poolid * list ip)) : oracle := {| k_write := false; k_final := c |}.
Definition crashmid := [EPools ypools; UPut 1 six; EReload [1] [kf (Some (1, [v6a]))]].
Compute (match wrun yrank crashmid world0 with Some w => Some (w_api w, allocated (c_mem (w_ctl w)), w_gate w, w_reload w, w_queue w) | None => None end).
Definition crashmid2 := crashmid ++ [ECrash; EPools ypools; EReload [1] [kk (Some (1, [v6a]))]; ESvc 1 (kk None)].
Compute (match wrun yrank crashmid2 world0 with Some w => Some (w_api w, allocated (c_mem (w_ctl w)), w_gate w, w_reload w, w_queue w) | None => None end).
