From Coq Require Import List NArith Bool.
From Verif Require Import Model.BgpAds Model.Speaker Proofs.SpeakerRefuted Proofs.SpeakerP Proofs.BgpAdsP Proofs.BgpAdsElig Properties.C05 Properties.C09 Properties.C10.
Import ListNotations.
Local Open Scope N_scope.

(* 1. C09_nonvacuous histories: do all three hypotheses hold? *)
Compute (forallb esvc_ok (f25_history ++ [EResync]),
         final_cfg_ok env_rev (snd (srun env_rev None (f25_history ++ [EResync]))),
         stale_after env_rev ([], sinit None) false (f25_history ++ [EResync])).
Compute (forallb esvc_ok (firstn 3 f9_history),
         final_cfg_ok env_id (snd (srun env_id (Some [0]) (firstn 3 f9_history))),
         stale_after env_id ([], sinit (Some [0])) false (firstn 3 f9_history)).

(* 2. C05 example: the session list for two services with equal aggregate *)
Compute (sess_of (brun 0 C05_ex_hist) 1).

(* same prefix, different localpref *)
Definition adv_lp (lp : N) : badv :=
  {| ba_agg4 := 24; ba_agg6 := 128; ba_lp := lp; ba_comms := []; ba_nodes := [0]; ba_peers := [] |}.
Definition hist2 : list bev :=
  [ BCfg [ {| pc_name := 1; pc_sels := []; pc_attr := 0; pc_ref := 0 |} ];
    BSet 0 [V4 169090561] [adv_lp 100]; BSet 1 [V4 169090562] [adv_lp 200] ].
Compute (sess_of (brun 0 hist2) 1).

(* 3. refused configuration: the cluster's last configuration differs from s_cfg *)
Definition cidr2 : prefix := {| pfam := F4; pbase := 3232235776; plen := 24 |}.
Definition cfg_other : config := {| cf_pools := [ {| pl_cidrs := [cidr2]; pl_bgp := []; pl_l2 := [ {| la_nodes := [0]; la_ifs := []; la_all := true |} ] |} ]; cf_peers := [] |}.
Definition hist3 : list sev :=
  [ ENode (w_node 0);
    ECfg (w_cfg [ {| la_nodes := [0]; la_ifs := []; la_all := true |} ]);
    ESvc 0 (Some (w_svc 169090561));
    ECfg cfg_other ].
Compute (forallb esvc_ok hist3,
         final_cfg_ok env_id (snd (srun env_id (Some [0]) hist3)),
         stale_after env_id ([], sinit (Some [0])) false hist3).
Compute (s_l2 (snd (srun env_id (Some [0]) hist3)) 0).
Compute (match s_cfg (snd (srun env_id (Some [0]) hist3)) with Some c => map pl_cidrs (cf_pools c) | None => [] end).
(* a fresh speaker on the CLUSTER's final state (config = cfg_other) *)
Definition st_cluster := set_cfg (Some cfg_other) (snd (srun env_id (Some [0]) hist3)).
Compute (s_l2 (fresh env_id st_cluster (fst (srun env_id (Some [0]) hist3))) 0).
Print Assumptions C09_history_independent_partial.
