From Coq Require Import String NArith Bool List.
From Verif Require Import Model.FrrSpec Model.FrrK8s Model.FrrMgr Proofs.FrrP Proofs.FrrMgrP Proofs.FrrK8sP Proofs.FrrK8sEqP Properties.C14 Properties.C15 Properties.C19.
Import ListNotations.
Open Scope string_scope.

Definition r6 := mk_pfx "2001:db8::1/128" {| pfam := F6; pbase := 42540766411282592856903984951653826561; plen := 128 |}.
Compute (wf_sessions_b [f15_witness], route_ok_b [f15_witness] r6, f15_shape f15_witness).

Definition p := mk_pfx "172.16.1.10/32" {| pfam := F4; pbase := 2886730010; plen := 32 |}.
Definition q := mk_pfx "fc00:f853:ccd:e799::/64" {| pfam := F6; pbase := 334965454937798799971759379190646833152; plen := 64 |}.
Definition s1 := mk_session 100 (Some "10.1.1.254") "" "10.2.2.254" true "" 200 "" None 179 None None None "" "" false false false
              [mk_adv p 300 [(false, "65000:200"); (true, "64512:1:2")]; mk_adv p 300 [(false, "65000:100")]; mk_adv q 0 [(false, "65000:100")]] ("", "").
Definition s2 := mk_session 100 (Some "10.1.1.254") "" "192.168.1.1" true "" 200 "" None 179 None None None "" "" false false true [] ("", "").
Compute (wf_sessions_b [s2;s1], comms_ok_b [s2;s1], nodup_b String.eqb (map sname [s2;s1]),
         match k8s_render "n" [s2;s1] with Some _ => true | None => false end,
         match render [s2;s1] with Some _ => true | None => false end).
Compute (match k8s_render "n" [s2;s1] with Some c => (sem_k8s c s1 p, sem_k8s c s1 q, sem_k8s c s2 p) | None => (None,None,None) end).
(* manager history *)
Compute (let '(st, oks, last) := mrun gen_frr true minit None [MNew s1; MSet s1 (s_advs s1); MNew s2; MSet s2 [mk_adv p 300 []; mk_adv p 200 []]; MClose s2] in
         (oks, map fst (ms_sessions st), match last with Some _ => true | None => false end)).
Print Assumptions C14_frr_out_exact.
