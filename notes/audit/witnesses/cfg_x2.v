From Coq Require Import List NArith.
From Verif Require Import Model.Cfg Model.CfgFull Proofs.CfgIsortP Properties.C08 Properties.C18.
Import ListNotations.
Local Open Scope N_scope.
Definition al ns : option alloc_cr := Some {| al_prio := 0; al_nss := ns; al_nssels := []; al_svcsels := [] |}.
Definition mkpool n a ns : pool_cr := {| pl_name := n; pl_labels := []; pl_addrs := [a]; pl_avoid := false; pl_auto := true; pl_alloc := al ns |}.
Definition A : fresources := {| f_pools := [mkpool 3 (ACidr (Build_prefix F4 256 24)) [7]; mkpool 1 (ACidr (Build_prefix F4 512 24)) [7;8]; mkpool 2 (ARange (V4 3) (V4 17)) [7]];
  f_l2 := []; f_bgp := []; f_nodes := []; f_nss := []; f_peers := []; f_bfds := []; f_comms := []; f_secrets := []; f_extras := 0 |}.
Definition B : fresources := {| f_pools := rev (f_pools A);
  f_l2 := []; f_bgp := []; f_nodes := []; f_nss := []; f_peers := []; f_bfds := []; f_comms := []; f_secrets := []; f_extras := 0 |}.
Compute (match full_to_config go_sorter (fun l => l) VNone A with Some c => Some (map p_name (po_pools (fc_pools c)), po_byns (fc_pools c)) | None => None end).
Compute (match full_to_config go_sorter (@rev pool) VNone B with Some c => Some (map p_name (po_pools (fc_pools c)), po_byns (fc_pools c)) | None => None end).
Print Assumptions C18_full_toconfig_deterministic.
Print Assumptions C08_one_route_one_localpref.
