From Coq Require Import List NArith Bool.
From Verif Require Import Model.Wire Model.Session Proofs.SessionP Properties.C16 Properties.C17 Properties.C20.
Import ListNotations.
Local Open Scope N_scope.
Eval vm_compute in (match enc_open 70000 [10;0;0;1] 90 with Some bs => Some (read_open (bs ++ [1;2;3])) | None => None end).
(* emitted_justified: adv unconstrained *)
Goal forall new ks, ks <> [] -> (forall k, In k ks -> new k = None) -> exists adv, justified adv new (MWdr ks).
Proof. intros. exists (fun _ => Some 0). split; auto. intros k Hk. split; auto. discriminate. Qed.
Print Assumptions C17_converges.
(* id reuse: stale reader aborts a fresh connection with same id *)
Eval vm_compute in
  (let c := {| my_asn := 64512; peer_asn := 64999; universe := [0]; cfg_hold := None |} in
   match run c world0 [EHandshake 1 64999 true true; EKeepaliveFail; EHandshake 1 64999 true true; EReaderDrop 1] with
   | Some w => Some (conn (ws w)) | None => None end).
(* hold 1 or 2: sendOpen writes it, decoder refuses *)
Eval vm_compute in (match enc_open 64512 [10;0;0;1] 2 with Some bs => dec_msg true bs | None => None end).
