From Coq Require Import List NArith ZArith Bool.
From Verif Require Import Model.Alloc Model.Ctrl Proofs.AllocP Proofs.CtrlWorldP Properties.C07.
Import ListNotations.
Local Open Scope N_scope.
Definition evs : list ev :=
  [EPools xpools; UPut 1 (xobj 80); UPut 2 (xobj 443); EReload [1; 2] [kgot; kgot]; ESvc 1 kgot; ESvc 2 kgot].
Eval vm_compute in (match wrun xrank evs world0 with
  | Some w => Some (w_reload w, w_queue w, w_gate w, map (fun e => (fst e, o_status (snd e))) (w_api w))
  | None => None end).
Definition evs' : list ev :=
  [EPools xpools; UPut 1 (xobj 80); UPut 2 (xobj 443); EReload [1; 2] [kgot; kgot];EReload [1; 2] [kgot; kgot]; ESvc 1 kgot; ESvc 2 kgot].
Eval vm_compute in (match wrun xrank evs' world0 with
  | Some w => Some (w_reload w, w_queue w, w_gate w, map (fun e => (fst e, o_status (snd e))) (w_api w))
  | None => None end).
