From Coq Require Import List NArith Bool.
From Verif Require Import Model.BgpAds Model.Speaker Proofs.SpeakerRefuted Proofs.SpeakerP.
Import ListNotations.
Local Open Scope N_scope.
Definition badv1 : badv := {| ba_agg4 := 24; ba_agg6 := 128; ba_lp := 100; ba_comms := [1]; ba_nodes := [0]; ba_peers := [] |}.
Definition cfgb : config := {| cf_pools := [ {| pl_cidrs := [w_cidr]; pl_bgp := [badv1]; pl_l2 := [ {| la_nodes := [0]; la_ifs := []; la_all := true |} ] |} ];
   cf_peers := [ {| pc_name := 1; pc_sels := [[(7,7)]]; pc_attr := 0; pc_ref := 0 |} ] |}.
Definition lab (l : list (N*N)) : nodeinfo := {| nd_id := 0; nd_unavail := false; nd_excl := false; nd_labels := l |}.
Definition hb : list sev := [ ENode (lab []); ECfg cfgb; ESvc 0 (Some (w_svc 169090561)); ENode (lab [(7,7)]) ].
Compute (let st := snd (srun env_id (Some [0]) hb) in (sess_of (s_bgp st) 1, s_l2 st 0, bs_ads (s_bgp st) 0,
   forallb esvc_ok hb, final_cfg_ok env_id st, stale_after env_id ([], sinit (Some [0])) false hb)).
(* node made unavailable afterwards *)
Definition hb2 := hb ++ [ENode {| nd_id := 0; nd_unavail := true; nd_excl := false; nd_labels := [(7,7)] |}].
Compute (let st := snd (srun env_id (Some [0]) hb2) in (sess_of (s_bgp st) 1, s_l2 st 0, bs_ads (s_bgp st) 0)).
