From Coq Require Import List NArith ZArith Bool.
From Verif Require Import Model.Alloc Model.AllocMaps Model.Ctrl Proofs.AllocP Proofs.AllocPolicyP Proofs.AllocMapsCohP Proofs.AllocMapsTopP Proofs.CtrlWorldP.
Import ListNotations.
Local Open Scope N_scope.

(* 1. zero-port: the concrete model accepts a third service with another key: exclusivity broken on abs *)
Definition zp2 := zero_port_ops ++ [OAssign 3 (ex_req [p80] 9) [ex_ip]].
Definition mz := m_run zp2 m_init.
Eval vm_compute in (map (fun e => (fst e, a_ips (snd e), a_key (snd e), a_ports (snd e))) (m_alloc mz)).
Eval vm_compute in (snd (m_step (m_run zero_port_ops m_init) (OAssign 3 (ex_req [p80] 9) [ex_ip]))).
(* abstract model on the same history *)
Eval vm_compute in (snd (step (run zero_port_ops init) (OAssign 3 (ex_req [p80] 9) [ex_ip]))).

(* 2. overlapping pools: every oracle answer is a mismatch *)
Definition Q : pool := {| p_name := 1; p_cidrs := [ {| pfam := F4; pbase := 167772160; plen := 30 |} ]; p_avoid := false; p_auto := true;
   p_pin := Some {| prio := 0; nss := [2]; sels := [] |} |}.
Definition P : pool := {| p_name := 2; p_cidrs := [ {| pfam := F4; pbase := 167772160; plen := 30 |} ]; p_avoid := false; p_auto := true; p_pin := None |}.
Definition ps : pools := {| by_name := [Q; P]; by_ns := [(2, [1])]; by_sel := [] |}.
Definition a0 : st := {| s_pools := ps; allocated := [] |}.
Definition r1 := ex_req [p80] 0.
Eval vm_compute in (snd (step a0 (OAllocate 5 r1 None))).
Eval vm_compute in (snd (step a0 (OAllocate 5 r1 (Some (2, [V4 167772160]))))).
Eval vm_compute in (snd (step a0 (OAllocate 5 r1 (Some (1, [V4 167772160]))))).
Eval vm_compute in (allocate_spec a0 5 r1 (Some (2, [V4 167772160]))).
